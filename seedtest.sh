#!/bin/bash
# usage: seedtest.sh <patch.diff> <PROP> [seconds] — apply a seeded change to /repo, run the quick check, undo
set -u
patch="$1"; prop="$2"; secs="${3:-}"
cd /repo || exit 2
git apply --check "$patch" || { echo "PATCH DOES NOT APPLY"; exit 3; }
git apply "$patch"
cd /verif
if [ -n "$secs" ]; then export VERIF_SECONDS="$secs"; fi
./check "$prop" quick > /tmp/seedtest.$$.out 2> /tmp/seedtest.$$.err; rc=$?
git -C /repo checkout -- . 
grep -E "^VIOLATION|^KNOWN" /tmp/seedtest.$$.out | head -3
grep -E "^\[violation\]|\[infra\]" /tmp/seedtest.$$.err | head -4 | cut -c1-400
echo "rc=$rc"
rm -f /tmp/seedtest.$$.out /tmp/seedtest.$$.err
exit $rc
