"""Self-tests of the machinery (DESIGN 6.1, 6.2):  ./check selftest determinism [ID...]   ./check selftest mutants [name-filter...]"""
import glob, json, os, shutil, subprocess, sys, tempfile, time

def determinism(args, C):
    props = args or sorted(C.PROPS)
    runs = int(os.environ.get('SELFTEST_RUNS', '2000'))
    bad = 0
    for prop in props:
        flavours = C.PROPS[prop]['flavours']
        C._group[0] = C.GROUP_OF[prop]
        C.build(flavours)
        ref = None
        for fl in flavours:
            for nw in (1, 8, 16):
                for rep in range(2):
                    tmp = tempfile.mkdtemp(prefix='det-', dir=C.BUILD)
                    try:
                        res = C.run_batch(prop, fl, 1, 'quick', 100000, nw, tmp, C.known_sigs(prop, C.load_known()), extra=['--print-hashes'], max_runs=runs)
                    finally:
                        shutil.rmtree(tmp, ignore_errors=True)
                    H = {}
                    for r in res:
                        H.update(r['parsed']['H'])
                    if len(H) != runs:
                        print('DETERMINISM %s %s workers=%d: only %d of %d runs reported' % (prop, fl, nw, len(H), runs)); bad += 1; continue
                    # cross-flavour equality of digests is only promised for C15 and for the schedule traces of C17
                    key = fl if prop not in ('C15', 'C17') else 'all'
                    if ref is None or ref[0] != key:
                        if ref is None or prop not in ('C15', 'C17'):
                            ref = (key, H, fl, nw)
                            continue
                    diff = [i for i in H if H[i] != ref[1].get(i)]
                    if diff:
                        print('DETERMINISM %s: %s workers=%d rep=%d differs from %s workers=%d at %d runs, first run %d' % (prop, fl, nw, rep, ref[2], ref[3], len(diff), diff[0])); bad += 1
        print('determinism %s: %s (%d seeds x %d flavours x worker counts 1/8/16 x 2 repetitions, fresh processes)' % (prop, 'OK' if not bad else 'FAILED', runs, len(flavours)), flush=True)
    return 1 if bad else 0

def mutant_list(C):
    out = []
    idx = json.load(open(os.path.join(C.ROOT, 'sim', 'mutants', 'index.json')))
    for m in idx:
        out.append(dict(name=m['patch'], patch=os.path.join(C.ROOT, 'sim', 'mutants', m['patch']), property=m['property'], flavours=m.get('flavours'), seconds=m.get('seconds', 12)))
    for meta in sorted(glob.glob(os.path.join(C.ROOT, 'seeded', '*', 'meta.json'))):
        m = json.load(open(meta))
        d = os.path.dirname(meta)
        if m.get('not_covered'):
            continue   # kept for the record: needs a build configuration no flavour has (see meta.json / DESIGN 9.4)
        out.append(dict(name='seeded/' + os.path.basename(d), patch=os.path.join(d, 'patch.diff'), property=m['check_property'], flavours=m.get('flavours'), seconds=m.get('seconds', 12)))
    return out

def mutants(args, C, todo=None):
    if todo is None:
        todo = [m for m in mutant_list(C) if not args or any(a in m['name'] for a in args)]
    missed = []
    for m in todo:
        scratch = tempfile.mkdtemp(prefix='verif-mutant-', dir='/tmp')
        try:
            shutil.copytree(os.path.join(C.REPO, 'include'), os.path.join(scratch, 'include'))
            r = subprocess.run(['patch', '-p1', '-s', '-d', scratch, '-i', m['patch']], capture_output=True, text=True)
            if r.returncode != 0:
                print('MUTANT %-60s patch does not apply: %s' % (m['name'], r.stdout[-200:])); missed.append(m['name']); continue
            env = dict(os.environ, VERIF_REPO=scratch, VERIF_BUILD=os.path.join(scratch, 'build'), VERIF_OUT=os.path.join(scratch, 'out'), VERIF_SECONDS=str(m['seconds']))
            if m.get('flavours'):
                env['VERIF_FLAVOURS'] = ','.join(m['flavours'])
            t0 = time.time()
            r = subprocess.run([os.path.join(C.ROOT, 'check'), m['property'], 'quick'], capture_output=True, text=True, env=env)
            viol = [l for l in r.stdout.splitlines() if l.startswith('VIOLATION')]
            ok = r.returncode == 1 and viol
            what = ''
            for l in r.stderr.splitlines():
                if l.startswith('[violation]'):
                    what = l[12:170]; break
            print('MUTANT %-60s %s %s rc=%d %.0fs  %s' % (m['name'][:60], m['property'], 'DETECTED' if ok else 'MISSED', r.returncode, time.time() - t0, what), flush=True)
            if not ok:
                missed.append(m['name'])
        finally:
            shutil.rmtree(scratch, ignore_errors=True)
    print('mutants: %d of %d detected' % (len(todo) - len(missed), len(todo)))
    return 1 if missed else 0

def harmless(args, C):
    """changes that keep every property: each check must stay quiet (exit 0) on them"""
    bad = []
    diffs = sorted(glob.glob(os.path.join(C.ROOT, 'sim', 'harmless', '*.diff')))
    props = [a for a in args if a in C.PROPS] or sorted(C.PROPS)
    for d in diffs:
        scratch = tempfile.mkdtemp(prefix='verif-harmless-', dir='/tmp')
        try:
            shutil.copytree(os.path.join(C.REPO, 'include'), os.path.join(scratch, 'include'))
            r = subprocess.run(['patch', '-p1', '-s', '-d', scratch, '-i', d], capture_output=True, text=True)
            if r.returncode != 0:
                print('HARMLESS %-40s patch does not apply: %s' % (os.path.basename(d), r.stdout[-200:])); bad.append(d); continue
            for prop in props:
                env = dict(os.environ, VERIF_REPO=scratch, VERIF_BUILD=os.path.join(scratch, 'build'), VERIF_OUT=os.path.join(scratch, 'out'), VERIF_SECONDS=os.environ.get('VERIF_SECONDS', '14'))
                r = subprocess.run([os.path.join(C.ROOT, 'check'), prop, 'quick'], capture_output=True, text=True, errors='replace', env=env)
                ok = r.returncode == 0 and 'VIOLATION' not in r.stdout
                print('HARMLESS %-40s %s %s rc=%d' % (os.path.basename(d), prop, 'quiet' if ok else 'ALARM', r.returncode), flush=True)
                if not ok:
                    bad.append((d, prop)); print(r.stderr[-1500:])
        finally:
            shutil.rmtree(scratch, ignore_errors=True)
    print('harmless changes: %d alarm(s)' % len(bad))
    return 1 if bad else 0

def main(args, C):
    if not args:
        print(__doc__); return 2
    if args[0] == 'harmless':
        return harmless(args[1:], C)
    if args[0] == 'determinism':
        return determinism(args[1:], C)
    if args[0] == 'mutants':
        return mutants(args[1:], C)
    if args[0] == 'patch':   # selftest patch <PROP> <patch.diff> [seconds] [flavours]: try one change on a scratch copy
        m = dict(name=args[2], patch=os.path.abspath(args[2]), property=args[1], seconds=int(args[3]) if len(args) > 3 else 16,
                 flavours=args[4].split(',') if len(args) > 4 else None)
        return mutants([], C, [m])
    print(__doc__); return 2
