#!/usr/bin/env python3
# Regenerates MANIFEST.json from one table (keeps it valid and in step with ./check).
import json, subprocess
hooks_commit = subprocess.run(['git','-C','/repo','log','--format=%H','--grep=verif hooks','-n','5'],capture_output=True,text=True).stdout.split()
T = {
 'C02': ('exploration', 'seeded search over Parse histories x allocator kind x SimMem environment (guard pages, fresh-memory fill incl. fake node cells, realloc move policy, allocation failure at the two handled sites), oracle = no memory fault + ledger + document reusable + environment independence; also ASan flavour',
         'Samples histories and memory environments, not all byte strings; accept/reject itself (C01) is not judged. Trusted: SimMem placement/ledger, reference model, g++ 12.', '3/C02'),
 'C06': ('exploration', 'seeded search over document-building histories x write-buffer starting states x tight-growth buggify (Stack::Grow reserves exactly its contract) x SimMem; oracle = independent RFC 8259 recogniser, kind-exact round trip through the reference parser and through the library, idempotent re-serialisation, non-finite contract, environment independence',
         'Samples documents; doubles/integers are exercised as payload, their digit-exactness (C07/C08) is not claimed. Trusted: reference parser/writer, glibc strtod.', '3/C06'),
 'C09': ('fault_enumeration', 'enumeration of string length 0..160 x distance 0..70(+) between string end and an unmapped page x benign/hostile trailing bytes x every Quote kernel of the build (static AVX2, static SSE4.2, dispatch incl. both clones, sanitizer path), destination of exactly 6n+35 bytes at a guard page; byte contents seeded; oracle = byte scanner derived from the statement + length bound + neighbour independence',
         'Length/distance grid is complete up to the stated bounds; byte contents are sampled (6 class mixes + one special byte at every position for n<=70).', '3/C09'),
 'C11': ('fault_enumeration', 'for sampled texts (valid and mutated) and paths, EVERY prefix length is placed end-flush to an unmapped page, start-flush after one, and mid-page between JSON-looking hostile bytes; oracle = no fault, slice within input, offset<=len on success, identical result for the three placements; GetOnDemand and Document::ParseOnDemand',
         'Texts and paths are sampled; prefixes and placements are enumerated completely per text; flavours: static AVX2, static SSE4.2, runtime dispatch, ASan. Whether the slice is the RIGHT one (C10) is not judged.', '3/C11'),
 'C12': ('exploration', 'seeded search over mutation-API histories (all listed operations, CreateMap/DestroyMap anywhere) on three allocator flavours x SimMem (realloc move vs in place, stale fill, guard pages, StringCopy failure); oracle = ordered-container reference model compared by full structural walk and lookup agreement after every operation, two memory environments',
         'Histories are sampled (<=60 ops, small key alphabet); RemoveMember of a duplicated key while a map exists is not issued (multimap may pick either).', '3/C12'),
 'C13': ('exploration', 'seeded search over histories incl. document move/swap/reset, Parse/ParseOnDemand/ParseSchema on valid and invalid text, CopyFrom, teardown after a random prefix (crash analogue) on allocators that really free; oracle = SimMem ledger (exactly-once, provider, nothing live at quiescence), freed blocks become PROT_NONE, model walk of ALL documents after every op (copy independence), caller buffers released right after each call',
         'Any block left allocated is a violation (the former known finding D5 is repaired by /repo 08c86de).', '3/C13'),
 'C14': ('fault_enumeration', 'enumeration of length 0..130 x both operands at distances 0..40(+) from an unmapped page x mismatch position x equal/different bytes after the operands for InlinedMemcmpEq/InlinedMemcmp of every kernel in the build (static AVX2, static SSE4.2, both clones in the dispatch build), oracle = memcmp; plus API lookups (both FindMember overloads, HasMember, with/without map) on keys and probes ending at guard pages',
         'Interior distance pairs (both > 8) are thinned to every third; contents sampled; one run in 400 compares operands of 2^32+ bytes (zero pages).', '3/C14'),
 'C15': ('exploration', 'the same seeded plans (Parse incl. numbers of every digit count, GetOnDemand, UpdateLazy, build+Serialize; inputs shifted 0..65 bytes) are executed in static AVX2, static SSE4.2, runtime dispatch, ASan AVX2 and ASan SSE4.2 builds; the driver compares per-run observation digests (error code/offset exempted only when the reference parser locates the first fault inside a string literal)',
         'Input space sampled. The dispatch build resolves to the AVX2 clones on this CPU; its SSE clones are exercised directly only in C09/C14.', '3/C15'),
 'C16': ('exploration', 'seeded search over Malloc/Realloc/Clear/copy/move/destroy histories x chunk capacity x policy (simple, adaptive) x constructor (default, supplied base, aligned/misaligned user buffer) x chunk allocation failure; oracle = bump-allocator model (alignment, inside one chunk, disjointness, painted contents re-verified after every op, in-place growth exactly when the model says, Size/Capacity, chunks returned exactly once)',
         'Histories sampled (<=70 ops); one run in 150 is a history over a single 9 GiB chunk (virtual memory only) crossing the 4 GiB line, skipped in the ASan flavour.', '3/C16'),
 'C17': ('exploration', 'real threads serialised by a seeded scheduler that is invisible to ThreadSanitizer (uniform and PCT-style picks, yield points inside SpinLock and the pool critical sections); families: independent documents, shared read-only document (incl. operator[] misses), locked shared pool; oracle = TSan reports, per-thread model, post-join disjointness/contents, bounded progress',
         'Schedules sampled; TSan is happens-before based (schedule independent for executed accesses).', '3/C17'),
 'C18': ('exploration', 'seeded search over pairs/triples of related documents (same value, member-permuted, one-leaf/one-key/one-kind/one-length near misses, unrelated) built through different histories (parse, API, copy, overwrite), allocator flavours, capacities and map presence; oracle = reflexive/symmetric/negation laws and (A==B) <=> model value equality, Parse(Dump(A))==A, two memory environments',
         'Duplicate-key documents are excluded as in the statement.', '3/C18'),
 'C19': ('exploration', 'seeded search over (existing document built by a history, related valid text) pairs with repeated application on three allocator flavours under SimMem; oracle = the statement written as a relation between existing value, text value and result (key set kept, declared keys replaced or recursed, omitted keys untouched, undeclared ignored, whole replacement otherwise)',
         'The corner "existing non-empty object, text {}" is accepted both ways (statement ambiguous). Leaks are judged under C13.', '3/C19'),
 'C20': ('exploration', 'seeded search over pairs of valid duplicate-free texts (source derived from target; same decoded key spelled with different escapes) given to UpdateLazy under two memory environments (fresh-memory fill, placement, realloc policy; small default chunk capacity in the SSE flavour); oracle = reference-parse(result) equals the recursive-merge model as JSON values, byte-identical result across environments, no fault, no leak',
         'Texts sampled.', '3/C20'),
}
NA = {
 'C01': 'Pure function of the input bytes (private padded copy, per-call parser state): no schedule, fault, history or environment for a simulator to vary; needs input-space enumeration/fuzzing.',
 'C03': 'Pure function of the text; the only environment it touches (stale node stack / padding) is covered by C02 environment-independence oracle.',
 'C04': 'Decimal->binary64 rounding is pure arithmetic; needs enumeration/proof of table rows and halfway cases, not simulation.',
 'C05': 'String-literal decoding is a function of the literal bytes and their offset inside the private copy; no fault or history dimension.',
 'C07': 'F64toa is a pure function of one double; needs per-exponent/table coverage (its 32-byte bound is exercised under C06 guard pages).',
 'C08': 'U64toa/I64toa are pure functions of one integer; call for exhaustive enumeration of the digit kernels.',
 'C10': 'On-demand vs DOM lookup is a function of (text, path) with no state between calls; its memory safety on unpadded buffers is C11, which is claimed.',
}
checks = []
for pid, (lvl, text, note, ref) in sorted(T.items()):
    checks.append(dict(property_id=pid, quick_cmd='./check %s quick' % pid, thorough_cmd='./check %s thorough' % pid,
        evidence_file='/verif/evidence/%s.json' % pid, replay_cmd_template='./check --replay {path}', engine='simsonic',
        level_claimed=dict(category=lvl, text=text, design_ref='DESIGN.md section ' + ref),
        level_note=note, technique='deterministic simulation with fault injection (seeded plans over SimMem / SimSched, reference-model oracle, ddmin replay files)'))
m = dict(version=1,
  setup_cmd='./check build',
  hooks=dict(guard='SONIC_VERIF_SIM', enable='./check compiles every harness TU with -DSONIC_VERIF_SIM against /repo/include (see FLAVOURS in ./check)',
             baseline_off_cmd='/verif/baseline_off.sh', source_commits=hooks_commit, add_only=True),
  engines=[dict(name='simsonic', path='/verif/sim', serves_properties=sorted(T), kind_free_text='deterministic simulator: seeded plan generator, SimMem memory environment (guard pages, fills, ledger, failure injection), SimSched thread scheduler, reference JSON model, Python driver with delta-debugging shrinker')],
  checks=checks,
  not_applicable=[dict(property_id=k, reason=v) for k, v in sorted(NA.items())],
  notes='DESIGN.md section 9 describes what is built. Known findings: /verif/known_findings.json. Seeded breakages used to test the checks: /verif/seeded/. VERIF_SEED selects the batch; VERIF_SECONDS overrides the search time.')
json.dump(m, open('/verif/MANIFEST.json', 'w'), indent=1)
print('ok', len(checks), 'checks')
