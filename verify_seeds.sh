#!/bin/bash
# Independently re-verify every seeded change delivered by the sub-agents, in a scratch worktree:
#  unit tests unchanged with the patch; demo fails with the patch and passes without it.
# usage: verify_seeds.sh <out.log> <prop/idx>...
LOG=$1; shift
WT=/tmp/wt/verify
git -C /repo worktree remove --force $WT 2>/dev/null
git -C /repo worktree add -q --detach $WT HEAD || exit 2
cd $WT
cmake -G Ninja -S . -B _build -DCMAKE_BUILD_TYPE=RelWithDebInfo -DBUILD_TESTING=ON -DCMAKE_POLICY_VERSION_MINIMUM=3.5 -DFETCHCONTENT_TRY_FIND_PACKAGE_MODE=ALWAYS -DFETCHCONTENT_UPDATES_DISCONNECTED=ON -DFETCHCONTENT_SOURCE_DIR_GOOGLETEST=/usr/src/googletest -DCMAKE_CXX_FLAGS=-Wno-error > /dev/null 2>&1
for s in "$@"; do
  p=${s%/*}; i=${s#*/}; src=${SEEDBASE:-/tmp/wt}/$p/out/$i
  [ -f $src/patch.diff ] || { echo "$s MISSING" >> $LOG; continue; }
  git checkout -q -- . ; 
  d0=1; d1=0; ut="?"
  # demo on the unchanged tree
  (cd $src && timeout 600 bash ./run_demo.sh $WT/include > $WT/demo0.log 2>&1); d0=$?
  if ! git apply --check $src/patch.diff 2>/dev/null; then echo "$s PATCH-DOES-NOT-APPLY" >> $LOG; continue; fi
  git apply $src/patch.diff
  (cd $src && timeout 600 bash ./run_demo.sh $WT/include > $WT/demo1.log 2>&1); d1=$?
  cmake --build _build -j16 > $WT/build.log 2>&1; b=$?
  if [ $b -ne 0 ]; then ut="BUILD-FAILED"; else
    (cd _build && timeout 900 ./tests/unittest > $WT/ut.log 2>&1)
    pass=$(grep -c "^\[       OK \]" $WT/ut.log); fail=$(grep "^\[  FAILED  \]" $WT/ut.log | grep -v "listed below" | grep -v "ParseFile\|ParseOnDemandFile" | sort -u | wc -l)
    ut="pass=$pass unexpected_fail=$fail"
  fi
  echo "$s demo_clean_rc=$d0 demo_patched_rc=$d1 unittests: $ut" >> $LOG
  git checkout -q -- .
done
cd / && git -C /repo worktree remove --force $WT
echo DONE >> $LOG
