#!/usr/bin/env python3
"""store_wave.py <wave-tag> <verify-log> <origin text> [SEEDBASE]: copy verified sub-agent deliveries
(SEEDBASE/<P>/out/<i>/) to /verif/seeded/<P>-<tag>-<i>/ with a meta.json built from verify_seeds.sh's log."""
import json, os, re, shutil, sys
tag, log, origin = sys.argv[1:4]
base = sys.argv[4] if len(sys.argv) > 4 else '/tmp/wt'
for l in open(log):
    m = re.match(r'(C\d+)/(\d+) demo_clean_rc=(\d+) demo_patched_rc=(\d+) unittests: pass=(\d+) unexpected_fail=(\d+)', l)
    if not m:
        if l.strip() != 'DONE': print('skip:', l.strip())
        continue
    p, i, d0, d1, ok, bad = m.group(1), m.group(2), *map(int, m.groups()[2:])
    if d0 != 0 or d1 == 0 or bad != 0 or ok < 173:
        print('NOT VERIFIED', l.strip()); continue
    src = '%s/%s/out/%s' % (base, p, i); dst = '/verif/seeded/%s-%s-%s' % (p, tag, i)
    if os.path.exists(dst): shutil.rmtree(dst)
    os.makedirs(dst)
    for f in os.listdir(src):
        if os.path.isfile(os.path.join(src, f)) and not f.endswith('.bin') and os.path.getsize(os.path.join(src, f)) < 300000:
            shutil.copy(os.path.join(src, f), dst)
    notes = open(os.path.join(src, 'NOTES.md')).read() if os.path.exists(os.path.join(src, 'NOTES.md')) else ''
    meta = dict(property=p, check_property=p, origin=origin, needs_to_manifest=' '.join(notes.split())[:700],
                verified=dict(how='verify_seeds.sh (scratch worktree): demo on the unchanged tree, demo with the patch, full unit suite with the patch',
                              demo_exit_unchanged=d0, demo_exit_with_change=d1, unit_tests_passing_with_change=ok,
                              unit_tests_unexpectedly_failing_with_change=bad))
    json.dump(meta, open(os.path.join(dst, 'meta.json'), 'w'), indent=1)
    print('stored', dst)
