#!/usr/bin/env python3
"""record_detection.py <selftest log>...: copy the outcome of `./check selftest mutants seeded/...` into seeded/*/meta.json"""
import json, re, sys, os
for f in sys.argv[1:]:
    for l in open(f):
        m = re.match(r'MUTANT (seeded/\S+)\s+(C\d+) (DETECTED|MISSED) rc=(\d+) (\d+)s\s*(.*)', l)
        if not m:
            continue
        mf = os.path.join('/verif', m.group(1), 'meta.json')
        if not os.path.exists(mf):
            continue
        meta = json.load(open(mf))
        meta['detected_by'] = dict(check='./check %s quick' % m.group(2), result=('exit 1 + VIOLATION line' if m.group(3) == 'DETECTED' else 'MISSED (exit %s)' % m.group(4)),
                                   seconds_incl_build=int(m.group(5)), first_violation=m.group(6).strip()[:300])
        meta['what_was_run'] = './check selftest mutants %s  (patch applied to a scratch copy of /repo/include under /tmp; VERIF_REPO, VERIF_BUILD, VERIF_OUT pointed there; quick check of %s; scratch removed)' % (m.group(1), meta['check_property'])
        json.dump(meta, open(mf, 'w'), indent=1)
        print(m.group(1), m.group(3))
