// DOM interpreter, instantiation for one allocator flavour (split only to compile in parallel)
#include "dom_exec.h"
namespace simdom {
bool DomExec::node_op_simple(const Op& op, Slot& s) { return node_op(op, s, *(DSimple*)s.doc); }
bool DomExec::pair_op_simple(const Op& op, Slot& s, Slot& o, bool copy) { return pair_op(op, s, *(DSimple*)s.doc, o, copy); }
}  // namespace simdom
