// SimSched implementation. NOTE: this file must be compiled without -fsanitize=thread.
#include "simsched.h"

#include <linux/futex.h>
#include <sys/syscall.h>
#include <unistd.h>

#include <atomic>
#include <climits>

#include "rng.h"

namespace simsched {
static const int MAXT = 8;
static Config g_cfg;
static std::atomic<int> g_turn{-1};
static std::atomic<int> g_registered{0};
static std::atomic<int> g_done{0};
static int g_state[MAXT];          // 1 runnable, 2 finished, 3 stalled (touched only by the token holder / before start)
static uint64_t g_wake[MAXT];      // step at which a stalled thread becomes runnable again
static uint64_t g_stall_begin[MAXT];
static uint64_t g_spin_run[MAXT];  // consecutive spin yields of a thread
static bool g_stall_fired;
static long g_prio[MAXT];
static uint64_t g_change[16];
static long g_lowest;
static Stats g_st;
static thread_local int t_tid = -1;
void (*on_step_bound)() = nullptr;

static void fwait(std::atomic<int>* a, int val) { syscall(SYS_futex, (int*)a, FUTEX_WAIT_PRIVATE, val, nullptr, nullptr, 0); }
static void fwake(std::atomic<int>* a) { syscall(SYS_futex, (int*)a, FUTEX_WAKE_PRIVATE, INT_MAX, nullptr, nullptr, 0); }
static void wait_turn(int me) {
  for (;;) {
    int t = g_turn.load(std::memory_order_acquire);
    if (t == me) return;
    fwait(&g_turn, t);
  }
}
static void give(int next) {
  g_turn.store(next, std::memory_order_release);
  fwake(&g_turn);
}

void configure(const Config& c) {
  g_cfg = c;
  if (g_cfg.nthreads > MAXT) g_cfg.nthreads = MAXT;
  g_turn.store(-1); g_registered.store(0); g_done.store(0);
  g_st = Stats();
  g_st.trace_hash = 0xcbf29ce484222325ULL;
  for (int i = 0; i < MAXT; i++) { g_state[i] = i < g_cfg.nthreads ? 1 : 0; g_prio[i] = 0; }
  // PCT: distinct random priorities, d change points
  for (int i = 0; i < g_cfg.nthreads; i++) g_prio[i] = 1000 + (long)(sim::hdec(c.seed, 0, 11, (uint64_t)i) % 1000) * 8 + i;
  for (int i = 0; i < 16; i++) g_change[i] = i < g_cfg.pct_depth ? sim::hdec(c.seed, 0, 12, (uint64_t)i) % (uint64_t)(g_cfg.pct_horizon > 0 ? g_cfg.pct_horizon : 1) : ~0ull;
  g_lowest = 0;
  g_stall_fired = false;
  for (int i = 0; i < MAXT; i++) { g_wake[i] = 0; g_stall_begin[i] = 0; g_spin_run[i] = 0; }
}

static void wake_due(bool force_earliest) {
  int earliest = -1;
  for (int i = 0; i < g_cfg.nthreads; i++) if (g_state[i] == 3) {
    if (g_wake[i] <= g_st.steps) { g_state[i] = 1; g_st.stall_steps += g_st.steps - g_stall_begin[i]; }
    else if (earliest < 0 || g_wake[i] < g_wake[earliest]) earliest = i;
  }
  if (force_earliest && earliest >= 0) {   // nothing else can run: the stall ends early (time jumps)
    bool any = false;
    for (int i = 0; i < g_cfg.nthreads; i++) if (g_state[i] == 1) any = true;
    if (!any) { g_state[earliest] = 1; g_st.stalls_cut_short++; g_st.stall_steps += g_st.steps - g_stall_begin[earliest]; }
  }
}

static int pick(int exclude) {
  int cands[MAXT], n = 0;
  for (int i = 0; i < g_cfg.nthreads; i++) if (g_state[i] == 1 && i != exclude) cands[n++] = i;
  if (n == 0) { if (exclude >= 0 && g_state[exclude] == 1) return exclude; return -2; }
  if (g_cfg.mode == PCT) {
    int best = cands[0];
    for (int i = 1; i < n; i++) if (g_prio[cands[i]] > g_prio[best]) best = cands[i];
    return best;
  }
  return cands[sim::hdec(g_cfg.seed, g_st.steps, 7, 0) % (uint64_t)n];
}

bool active_here() { return t_tid >= 0; }

void thread_begin(int tid) {
  t_tid = tid;
  g_registered.fetch_add(1, std::memory_order_acq_rel);
  fwake(&g_registered);
  wait_turn(tid);
}

void thread_end(int tid) {
  g_state[tid] = 2;
  t_tid = -1;
  wake_due(true);
  int next = pick(-1);
  g_done.fetch_add(1, std::memory_order_acq_rel);
  give(next);           // -2 when everybody is finished
  fwake(&g_done);
}

void yield(int tag) {
  int me = t_tid;
  if (me < 0) return;
  g_st.steps++;
  g_st.trace_hash = (g_st.trace_hash ^ (uint64_t)(me * 16 + tag)) * 0x100000001b3ULL;
  if (tag == 1) g_st.lock_attempts++;
  if (tag == 2) { g_st.spin_hits++; if (++g_spin_run[me] > g_st.max_spin_run) g_st.max_spin_run = g_spin_run[me]; } else g_spin_run[me] = 0;
  wake_due(false);
  if (g_st.steps > g_cfg.max_steps) {
    g_st.step_bound_hit = true;
    if (on_step_bound) on_step_bound();
    _exit(71);
  }
  if (g_cfg.mode == PCT)
    for (int i = 0; i < g_cfg.pct_depth && i < 16; i++) if (g_change[i] == g_st.steps) g_prio[me] = --g_lowest;
  // a spinning thread drops below everybody else, otherwise two high-priority spinners could
  // hand the token to each other forever while the lock holder never runs
  if (tag == 2 && g_cfg.mode == PCT) g_prio[me] = --g_lowest;
  if (!g_stall_fired && g_st.steps >= g_cfg.stall_at && g_cfg.stall_len > 0 && (tag == 3 || tag == 4 || g_cfg.stall_any)) {
    g_stall_fired = true;
    g_state[me] = 3; g_wake[me] = g_st.steps + g_cfg.stall_len; g_stall_begin[me] = g_st.steps;
    g_st.stalls++;
    if (tag == 3 || tag == 4) g_st.stalls_in_cs++;
    wake_due(true);                      // nobody else runnable: the stall is over at once
    if (g_state[me] == 1) return;
    g_st.switches++;
    give(pick(-1));
    wait_turn(me);
    return;
  }
  int next = pick(tag == 2 ? me : -1);
  if (next == me || next < 0) return;
  if (tag == 3 || tag == 4) g_st.preempt_in_cs++;
  g_st.switches++;
  give(next);
  wait_turn(me);
}

void run() {
  for (;;) {
    int r = g_registered.load(std::memory_order_acquire);
    if (r >= g_cfg.nthreads) break;
    fwait(&g_registered, r);
  }
  give(pick(-1));
  for (;;) {
    int d = g_done.load(std::memory_order_acquire);
    if (d >= g_cfg.nthreads) break;
    fwait(&g_done, d);
  }
}

Stats stats() { return g_st; }
}  // namespace simsched
