// C17 — freedom from data races (DESIGN §3/C17). Real threads under SimSched; built twice:
// with ThreadSanitizer (race oracle) and plain (overlap / result oracle). -DSONIC_LOCKED_ALLOCATOR.
#include <thread>
#include <unistd.h>

#include "domlib.h"
#include "simsched.h"
#include "sonic/experiment/lazy_update.h"

extern "C" void sonic_verif_sim_point(int tag) { simsched::yield(tag); }
extern "C" int sonic_verif_tight_growth() { return 0; }
namespace sim { int g_tight_growth = 0; uint64_t g_tight_hits = 0; }

namespace {
using namespace sim;
using namespace sonic_json;
using model::JVal;

using SDoc = GenericDocument<DNode<SimpleAllocator>>;
using Pool = MemoryPoolAllocator<SimpleAllocator>;
using PoolA = MemoryPoolAllocator<SimpleAllocator, AdaptiveChunkPolicy>;   // the other chunk policy: it has state of its own
using DocA = GenericDocument<DNode<PoolA>>;

struct Blk { char* p; size_t n; uint32_t tag; size_t ext; };
struct Ctx {
  int tid = 0;
  std::vector<const Op*> ops;
  std::vector<std::string> results;
  std::string error;
  // private state
  Document* doc = nullptr;      // family a: own pool; family c: shares the pool
  DocA* doca = nullptr;         // family c with the adaptive chunk policy
  SDoc* sdoc = nullptr;
  std::vector<Blk> blocks;      // family c
};
struct Shared {
  int family = 0;
  Document* shared_doc = nullptr;  // family b
  SDoc* shared_sdoc = nullptr;
  Pool* pool = nullptr;            // family c
  PoolA* poola = nullptr;          // family c, adaptive chunk policy
  char* ubuf = nullptr;            // family c, pool constructed over this buffer
};

static void paint(char* p, size_t n, uint32_t tag) { for (size_t i = 0; i < n; i++) p[i] = (char)(tag * 29 + i * 13); }
static bool painted(const char* p, size_t n, uint32_t tag) { for (size_t i = 0; i < n; i++) if (p[i] != (char)(tag * 29 + i * 13)) return false; return true; }

template <class D> static std::string read_op(const D& d, const Op& op) {
  using N = typename std::remove_reference<decltype(*d.AtPointer())>::type;
  const std::string& k = op.kind;
  if (k == "Walk") return walk_str(static_cast<const N&>(d));
  if (k == "Dump") return d.Dump();
  if (k == "Find") {
    if (!d.IsObject()) return "noobj";
    auto it = d.FindMember(StringView(op.S(0)));
    auto it2 = d.FindMember(op.S(0).data(), op.S(0).size());
    return std::to_string(it - d.MemberBegin()) + "," + std::to_string(it2 - d.MemberBegin()) + (d.HasMember(StringView(op.S(0))) ? "h" : "n");
  }
  if (k == "Index") {
    if (!d.IsObject()) return "noobj";
    const N& v = d[StringView(op.S(0))];       // hit or miss: must not write shared state
    return v.IsNull() ? "null" : walk_str(v);
  }
  if (k == "AtPtr") {
    JsonPointer jp;
    for (auto& e : pspec_decode(op.S(0))) { if (e.t == 'k') jp /= JsonPointerNode(e.key); else jp /= JsonPointerNode((int)e.n); }
    const N* r = d.AtPointer(jp);
    return r ? walk_str(*r) : "none";
  }
  if (k == "Eq") { return (static_cast<const N&>(d) == static_cast<const N&>(d)) ? "eq" : "ne"; }
  if (k == "Iter") {
    size_t n = 0;
    if (d.IsObject()) for (auto it = d.MemberBegin(); it != d.MemberEnd(); ++it) n += it->name.Size() + (it->value.IsNumber() ? 1 : 0);
    if (d.IsArray()) for (auto it = d.Begin(); it != d.End(); ++it) n += it->IsString() ? it->Size() : 1;
    return "it" + std::to_string(n);
  }
  if (k == "Ser") { WriteBuffer wb; SonicError e = d.Serialize(wb); return e ? "err" : std::string(wb.ToString(), wb.Size()); }
  return "?";
}

template <class P, class D> static std::string pool_op(P& pool, D& doc, Ctx& c, const Op& op) {
  using N = typename std::remove_reference<decltype(*doc.AtPointer())>::type;
  const std::string& k = op.kind;
  if (k == "Malloc") {
    size_t n = (size_t)op.A(1);
    char* p = (char*)pool.Malloc(n);
    if (n == 0) return p ? "nonnull0" : "z";
    if (!p) return "null";
    if ((uintptr_t)p & 7) c.error = "Malloc returned a misaligned block";
    Blk b{p, n, (uint32_t)(c.tid * 100000 + c.blocks.size() + 1), (n + 7) & ~(size_t)7};
    paint(p, n, b.tag); c.blocks.push_back(b);
    return "m";
  }
  if (k == "ReallocNull") {   // Realloc(nullptr, 0, n) is an allocation (the DOM's first growth of an empty container)
    size_t n = (size_t)op.A(1);
    if (n == 0) return "z";
    char* p = (char*)pool.Realloc(nullptr, 0, n);
    if (!p) return "null";
    if ((uintptr_t)p & 7) c.error = "Realloc(nullptr) returned a misaligned block";
    Blk b{p, n, (uint32_t)(c.tid * 100000 + 70000 + c.blocks.size() + 1), (n + 7) & ~(size_t)7};
    paint(p, n, b.tag); c.blocks.push_back(b);
    return "m";
  }
  if (k == "Realloc") {
    if (c.blocks.empty()) return "nob";
    size_t bi = (size_t)((uint64_t)op.A(1) % c.blocks.size());
    Blk& b = c.blocks[bi];
    size_t n = (size_t)op.A(2);
    if (n == 0) return "z";
    char* p = (char*)pool.Realloc(b.p, b.n, n);
    if (!p) return "null";
    size_t keep = b.n < n ? b.n : n;
    if (!painted(p, keep, b.tag)) c.error = "Realloc result lost the old contents (thread " + std::to_string(c.tid) + ")";
    if (p != b.p) { Blk nb{p, n, (uint32_t)(c.tid * 100000 + 50000 + c.blocks.size()), (n + 7) & ~(size_t)7}; paint(p, n, nb.tag); c.blocks.push_back(nb); return "r"; }
    size_t ne = (n + 7) & ~(size_t)7;
    if (ne > b.ext) b.ext = ne;
    b.n = n; b.tag += 7; paint(b.p, n, b.tag);
    return "r";   // in place or moved: legitimately schedule dependent
  }
  if (k == "DocParse") { doc.Parse(op.S(0)); return doc.HasParseError() ? "e" : doc.Dump(); }
  if (k == "DocAdd") {
    if (!doc.IsObject()) doc.SetObject();
    doc.AddMember(StringView(op.S(0)), N((int64_t)op.A(1)), doc.GetAllocator());
    return doc.Dump();
  }
  if (k == "Dump") return doc.Dump();
  return "?";
}

static std::string exec_one(Shared& sh, Ctx& c, const Op& op) {
  const std::string& k = op.kind;
  if (k == "OnDemand") {
    JsonPointer jp;
    for (auto& e : pspec_decode(op.S(1))) { if (e.t == 'k') jp /= JsonPointerNode(e.key); else jp /= JsonPointerNode((int)e.n); }
    StringView t; ParseResult pr = GetOnDemand(StringView(op.S(0)), jp, t);
    return pr.Error() ? "e" + std::to_string((int)pr.Error()) : std::string(t.data(), t.size());
  }
  if (k == "Update") return UpdateLazy(StringView(op.S(0)), StringView(op.S(1)));
  if (sh.family == 1) {
    if (op.A(1) & 1) return read_op(*sh.shared_sdoc, op);
    return read_op(*sh.shared_doc, op);
  }
  if (sh.family == 0) {
    if (k == "Parse") { c.doc->Parse(op.S(0)); c.sdoc->Parse(op.S(0)); return std::to_string((int)c.doc->GetParseError()) + "/" + std::to_string((int)c.sdoc->GetParseError()); }
    if (k == "Add") {
      if (!c.doc->IsObject()) c.doc->SetObject();
      if (!c.sdoc->IsObject()) c.sdoc->SetObject();
      c.doc->AddMember(StringView(op.S(0)), Node((int64_t)op.A(1)), c.doc->GetAllocator());
      c.sdoc->AddMember(StringView(op.S(0)), DNode<SimpleAllocator>((int64_t)op.A(1)), c.sdoc->GetAllocator());
      return "a";
    }
    if (k == "Map") { if (c.doc->IsObject()) c.doc->CreateMap(c.doc->GetAllocator()); return "m"; }
    if (k == "IndexWrite") {   // operator[] of a missing key hands out a reference; using it must stay a thread-private affair
      std::string r;
      if (c.doc->IsObject()) { auto& v = (*c.doc)[StringView(op.S(0))]; bool miss = !c.doc->HasMember(StringView(op.S(0))); if (miss) { v.SetInt64(op.A(1)); r += v.IsInt64() && v.GetInt64() == op.A(1) ? "w" : "W"; } else r += "h"; }
      if (c.sdoc->IsObject()) { auto& v = (*c.sdoc)[StringView(op.S(0))]; bool miss = !c.sdoc->HasMember(StringView(op.S(0))); if (miss) { v.SetInt64(op.A(1)); r += v.IsInt64() && v.GetInt64() == op.A(1) ? "w" : "W"; } else r += "h"; }
      return r;
    }
    if (op.A(1) & 1) return read_op(*c.sdoc, op);
    return read_op(*c.doc, op);
  }
  // family 2: one shared locked pool
  if (sh.poola) return pool_op(*sh.poola, *c.doca, c, op);
  return pool_op(*sh.pool, *c.doc, c, op);
}

static void worker(Shared* sh, Ctx* c) {
  simsched::thread_begin(c->tid);
  for (const Op* op : c->ops) {
    simsched::yield(0);
    c->results.push_back(exec_one(*sh, *c, *op));
  }
  simsched::thread_end(c->tid);
}

static std::string g_bound_line;
static void step_bound() {
  ssize_t w = write(1, g_bound_line.data(), g_bound_line.size()); (void)w;
}

static void setup(const Plan& p, Shared& sh, std::vector<Ctx>& ctx, bool reference) {
  sh.family = (int)p.K("family", 0);
  int nt = (int)p.K("nthreads", 2);
  ctx.assign((size_t)nt, Ctx());
  for (int t = 0; t < nt; t++) ctx[(size_t)t].tid = t;
  for (auto& op : p.ops) {
    if (op.kind == "Setup") continue;
    int t = (int)((uint64_t)op.A(0) % (uint64_t)nt);
    ctx[(size_t)t].ops.push_back(&op);
  }
  if (sh.family == 1) {
    sh.shared_doc = new Document(); sh.shared_sdoc = new SDoc();
    for (auto& op : p.ops) if (op.kind == "Setup") {
      sh.shared_doc->Parse(op.S(0)); sh.shared_sdoc->Parse(op.S(0));
      if ((op.A(0) & 1) && sh.shared_doc->IsObject()) { sh.shared_doc->CreateMap(sh.shared_doc->GetAllocator()); sh.shared_sdoc->CreateMap(sh.shared_sdoc->GetAllocator()); }
    }
  }
  bool adaptive = p.K("adaptive", 0) != 0;
  if (sh.family == 2) {
    int64_t ub = p.K("user_buffer", 0);   // pool over a caller buffer of that many bytes and no base allocator: the first overflow creates one
    if (ub > 0) { sh.ubuf = new char[(size_t)ub + 8]; }
    if (adaptive) sh.poola = ub > 0 ? new PoolA(sh.ubuf, (size_t)ub, (size_t)p.K("chunk", 256)) : new PoolA((size_t)p.K("chunk", 256));
    else sh.pool = ub > 0 ? new Pool(sh.ubuf, (size_t)ub, (size_t)p.K("chunk", 256)) : new Pool((size_t)p.K("chunk", 256));
  }
  for (auto& c : ctx) {
    if (sh.family == 0) { c.doc = new Document(); c.sdoc = new SDoc(); }
    if (sh.family == 2) { if (adaptive) c.doca = new DocA(sh.poola); else c.doc = new Document(sh.pool); }
  }
  (void)reference;
}
static void cleanup(Shared& sh, std::vector<Ctx>& ctx) {
  for (auto& c : ctx) { delete c.doc; delete c.doca; delete c.sdoc; }
  delete sh.shared_doc; delete sh.shared_sdoc; delete sh.pool; delete sh.poola; delete[] sh.ubuf;
}

static void exec_c17(const Plan& p, Outcome& out) {
  // sequential reference (main thread, no scheduler)
  Shared rs; std::vector<Ctx> rc;
  setup(p, rs, rc, true);
  for (auto& c : rc) for (const Op* op : c.ops) c.results.push_back(exec_one(rs, c, *op));
  cleanup(rs, rc);

  Shared sh; std::vector<Ctx> ctx;
  setup(p, sh, ctx, false);
  simsched::Config cfg;
  cfg.nthreads = (int)ctx.size(); cfg.seed = (uint64_t)p.K("schedseed", 1); cfg.mode = (int)p.K("sched_mode", 0);
  cfg.pct_depth = (int)p.K("pct_depth", 2); cfg.pct_horizon = (int)p.K("pct_horizon", 200);
  if (p.K("stall_len", 0) > 0) { cfg.stall_at = (uint64_t)p.K("stall_at", 0); cfg.stall_len = (uint64_t)p.K("stall_len", 0); cfg.stall_any = (int)p.K("stall_any", 0); }
  cfg.max_steps = 20000 + cfg.stall_len;
  simsched::configure(cfg);
  char buf[512];
  snprintf(buf, sizeof buf, " {\"prop\":\"C17\",\"run\":%llu,\"class\":\"progress\",\"site\":\"scheduler:step_bound\",\"op\":-1,\"detail\":\"threads did not finish within the scheduler step bound (20000 + length of the injected stall; a spinning thread never obtained the lock?)\",\"hash\":\"0\"}\n",
           (unsigned long long)p.run);
  g_bound_line = std::string("V") + buf + "O" + buf;
  simsched::on_step_bound = step_bound;
  std::vector<std::thread> th;
  for (auto& c : ctx) th.emplace_back(worker, &sh, &c);
  simsched::run();
  for (auto& t : th) t.join();
  simsched::Stats st = simsched::stats();

  out.ops_executed = 0;
  for (auto& c : ctx) out.ops_executed += c.results.size();
  out.faults_fired = st.switches;
  out.outcome_vec = st.trace_hash;
  out.obs_hash = st.trace_hash;
  if (st.spin_hits) probe("lock_contended(spin hook hit)", 1);
  if (st.preempt_in_cs) probe("preempted_inside_critical_section", 1);
  if (st.switches) probe("runs_with_context_switches", 1);
  g_stats.fired["scheduler_switches"] += st.switches;
  g_stats.fired["lock_spin_yields"] += st.spin_hits;
  g_stats.fired["preemptions_inside_critical_section"] += st.preempt_in_cs;
  g_stats.fired["scheduler_steps"] += st.steps;
  g_stats.fired["thread_stalls"] += st.stalls;
  g_stats.fired["thread_stalls_inside_critical_section"] += st.stalls_in_cs;
  g_stats.fired["thread_stall_steps_served"] += st.stall_steps;
  g_stats.fired["thread_stalls_cut_short(nothing else runnable)"] += st.stalls_cut_short;
  if (p.K("stall_len", 0) > 0) g_stats.configured["thread_stall"] += 1;
  if (st.stalls_in_cs) probe("lock_owner_stalled_inside_critical_section", 1);
  if (st.max_spin_run >= 2000) probe("waiter_spun_2000+_times_on_a_held_lock", 1);
  else if (st.max_spin_run >= 100) probe("waiter_spun_100+_times_on_a_held_lock", 1);
  probe(sh.family == 0 ? "family_independent_documents" : sh.family == 1 ? "family_shared_readonly_document" : "family_locked_shared_pool");
  if (g_verbose) { out.obs_text.push_back("schedule trace hash " + std::to_string(st.trace_hash) + " steps " + std::to_string(st.steps) + " switches " + std::to_string(st.switches) + " spins " + std::to_string(st.spin_hits)); }

  auto fail = [&](const char* cls, const std::string& site, const std::string& d) { if (!out.violated) { out.violated = true; out.vclass = cls; out.site = site; out.detail = d; } };
  for (size_t t = 0; t < ctx.size(); t++) {
    if (!ctx[t].error.empty()) fail("model", "thread:" + ctx[t].error.substr(0, 40), ctx[t].error);
    for (size_t i = 0; i < ctx[t].results.size() && i < rc[t].results.size(); i++)
      if (ctx[t].results[i] != rc[t].results[i]) {
        fail("model", ctx[t].ops[i]->kind + ":result_differs_from_sequential", "thread " + std::to_string(t) + " op " + std::to_string(i) + " (" + ctx[t].ops[i]->kind + ") returned " + model::printable(ctx[t].results[i], 200) + " but the same operations run sequentially give " + model::printable(rc[t].results[i], 200));
        break;
      }
  }
  if (sh.family == 2) {
    std::vector<Blk> all;
    for (auto& c : ctx) all.insert(all.end(), c.blocks.begin(), c.blocks.end());
    for (size_t i = 0; i < all.size() && !out.violated; i++) {
      if (!painted(all[i].p, all[i].n, all[i].tag)) fail("overlap", "pool:contents", "a block handed out by the shared locked pool was overwritten by another thread's allocation");
      for (size_t j = i + 1; j < all.size(); j++) {
        size_t ei = all[i].ext, ej = all[j].ext;
        if (all[i].p < all[j].p + ej && all[j].p < all[i].p + ei) { fail("overlap", "pool:overlap", "two threads received overlapping blocks from the shared locked pool"); break; }
      }
    }
  }
  cleanup(sh, ctx);
}

static void gen_c17(uint64_t seed, uint64_t run, const std::string& tier, Plan& p) {
  uint64_t rs = mix3(seed, prop_tag("C17"), run);
  Rng r(rs);
  p.prop = "C17"; p.seed = seed; p.run = run; p.tier = tier;
  int family = (int)r.below(3);
  int nt = (int)r.range(2, 4);
  p.knobs["family"] = family; p.knobs["nthreads"] = nt;
  p.knobs["schedseed"] = (int64_t)(mix64(rs ^ 0x5c) >> 1);
  p.knobs["sched_mode"] = (int64_t)r.below(2);
  p.knobs["pct_depth"] = (int64_t)r.range(1, 4);
  p.knobs["pct_horizon"] = (int64_t)r.range(20, 300);
  static const int64_t chunks[] = {64, 256, 1024, 65536};
  p.knobs["chunk"] = chunks[r.below(4)];
  p.knobs["adaptive"] = (int64_t)(mix64(rs ^ 0xada) % 3 == 0);
  { static const int64_t ubs[] = {0, 0, 0, 64, 96, 200, 1000}; p.knobs["user_buffer"] = ubs[mix64(rs ^ 0xb0f) % 7]; }
  {  // stalled-thread fault (own stream so that the plans of earlier versions keep their ops)
    Rng rf(mix64(rs ^ 0x57a11));
    if (rf.chance(family == 2 ? 1 : 1, family == 2 ? 2 : 5)) {
      unsigned c = (unsigned)rf.below(20);
      p.knobs["stall_len"] = (int64_t)(c < 12 ? rf.range(5, 100) : c < 17 ? rf.range(100, 1500) : rf.range(2500, 8000));
      p.knobs["stall_at"] = (int64_t)rf.below(120);
      p.knobs["stall_any"] = (int64_t)(family == 2 ? rf.chance(1, 4) : 1);
    }
  }
  model::GenOpts go; go.dup_keys = false; go.key_alphabet = 4; go.max_depth = 2; go.wild_strings = false;
  auto add = [&](const char* k) -> Op& { p.ops.emplace_back(); p.ops.back().kind = k; return p.ops.back(); };
  auto text = [&]() { JVal v = JVal::obj(); size_t n = (size_t)r.range(1, 6); for (size_t i = 0; i < n; i++) { std::string k = model::gen_key(r, go); if (v.find(k) < 0) v.o.emplace_back(k, model::gen_value(r, go, 1)); } return model::write(v); };
  auto key = [&]() { return r.chance(1, 3) ? std::string("nokey") + (char)('0' + r.below(3)) : model::gen_key(r, go); };
  std::string shared_text = text();
  // an object whose first key is long (200..330 bytes) and spelled with escapes: on-demand scanning unescapes it into scratch memory
  std::string longkey_text;
  { std::string k((size_t)r.range(200, 330), 'q'); for (size_t i = 3; i < k.size(); i += 17) k[i] = (char)('a' + r.below(26)); JVal v = JVal::obj(); v.o.emplace_back(k, JVal::uint(1)); v.o.emplace_back(model::gen_key(r, go), JVal::uint(2)); model::WriteOpts wo; wo.ws_rng = &r; wo.ws_max = 1; wo.escape_more = true; do { longkey_text.clear(); model::write(v, longkey_text, wo); } while (longkey_text.find('\\') == std::string::npos); }
  if (family == 1) { Op& o = add("Setup"); o.a = {(int64_t)r.below(2)}; o.s = {shared_text}; }
  size_t n = (size_t)r.range(4, tier == "thorough" ? 40 : 24);
  for (size_t i = 0; i < n; i++) {
    int64_t t = (int64_t)r.below((uint64_t)nt);
    if (family == 2) {
      unsigned m = (unsigned)r.below(10);
      if (m < 4) { Op& o = add(r.chance(1, 4) ? "ReallocNull" : "Malloc"); o.a = {t, (int64_t)(r.chance(1, 4) ? r.below(300) : r.below(40))}; }
      else if (m < 7) { Op& o = add("Realloc"); o.a = {t, (int64_t)r.below(16), (int64_t)(r.chance(1, 4) ? r.below(300) : 1 + r.below(60))}; }
      else if (m < 8) { Op& o = add("DocParse"); o.a = {t}; o.s = {text()}; }
      else if (m < 9) { Op& o = add("DocAdd"); o.a = {t, (int64_t)r.range(-5, 5)}; o.s = {model::gen_key(r, go)}; }
      else { Op& o = add("Dump"); o.a = {t}; }
      continue;
    }
    unsigned m = (unsigned)r.below(14);
    int64_t which = (int64_t)r.below(2);
    if (family == 0 && m < 3) { Op& o = add("Parse"); o.a = {t}; o.s = {r.chance(1, 6) ? text().substr(0, 5) : text()}; }
    else if (family == 0 && m < 5) { Op& o = add("Add"); o.a = {t, (int64_t)r.range(-9, 9)}; o.s = {model::gen_key(r, go)}; }
    else if (family == 0 && m < 6) { Op& o = add(r.chance(1, 2) ? "Map" : "IndexWrite"); o.a = {t, (int64_t)r.range(-9, 9)}; if (o.kind == "IndexWrite") o.s = {std::string("nokey") + (char)('0' + r.below(3))}; }
    else if (m < 8) { Op& o = add("Index"); o.a = {t, which}; o.s = {key()}; }
    else if (m < 9) { Op& o = add("Find"); o.a = {t, which}; o.s = {key()}; }
    else if (m < 10) { Op& o = add(r.chance(1, 2) ? "Walk" : "Iter"); o.a = {t, which}; }
    else if (m < 11) { Op& o = add(r.chance(1, 2) ? "Dump" : "Ser"); o.a = {t, which}; }
    else if (m < 12) { Op& o = add("AtPtr"); o.a = {t, which}; std::vector<PSpec> ps; PSpec e; e.t = 'k'; e.key = key(); e.n = 0; ps.push_back(e); o.s = {pspec_encode(ps)}; }
    else if (m < 13) { Op& o = add("OnDemand"); o.a = {t}; std::vector<PSpec> ps; PSpec e; e.t = 'k'; e.key = key(); e.n = 0; ps.push_back(e); o.s = {r.chance(1, 3) ? longkey_text : shared_text, pspec_encode(ps)}; }
    else { Op& o = add(r.chance(1, 2) ? "Eq" : "Update"); o.a = {t, which}; if (o.kind == "Update") o.s = {shared_text, text()}; }
  }
}

static const Profile kC17 = {"C17", gen_c17, exec_c17,
  "a run = one plan (4..40 ops distributed over 2..4 real threads) of one of three families - independent documents, shared read-only document (lookups incl. operator[] misses, iteration, AtPointer, ==, Serialize), one shared locked pool (Malloc/Realloc/documents over it) - executed under one seeded schedule (uniform or PCT with 1..4 priority change points; yield points at op boundaries and inside SpinLock/Malloc/Realloc; in about half of the pool runs one thread is stalled for 5..8000 scheduler steps, usually while it holds the pool lock); evaluations = schedules executed; non-trivial = >=1 op and >=1 context switch; distinct = hash(op list, schedule trace hash)"};
static ProfileReg r17(&kC17);
}  // namespace
