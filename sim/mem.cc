// SimMem implementation. Two modes:
//   default            : guard-page arena at a fixed address (production-path builds)
//   SIMMEM_SANITIZER   : thin ledger + fill + failure over the sanitizer's own malloc
#include "mem.h"

#include <signal.h>
#include <sys/mman.h>
#include <unistd.h>

#include <cstdio>
#include <cstdlib>
#include <cstring>
#include <map>
#include <unordered_map>

#include "rng.h"

extern "C" {
void* __real_malloc(size_t);
void* __real_realloc(void*, size_t);
void __real_free(void*);
}

namespace simmem {

const char* const kCtrNames[NCTR] = {
    "alloc", "guard_after", "guard_before", "mid_page", "hostile_neighbours", "fill_zero", "fill_ff",
    "fill_quote", "fill_backslash", "fill_noise", "fill_fake_node_cells", "realloc_move",
    "realloc_inplace", "free_poison", "free_protect", "alloc_fail", "caller_release", "big_block",
    "reuse_lifo", "dense_overflow_block(no guard page: more live blocks than slots)"};
uint64_t g_ctr[NCTR];
FatalCtx g_fatal_ctx = {"?", 0, 0};
void (*g_on_fatal)(const char*, const char*, int, int) = nullptr;

static Env g_env;
static bool g_active = false;
static int g_op = -1, g_opkind = -1;
static uint16_t g_ord[NPROV];
static uint32_t g_next_id = 1;
static std::vector<Block> g_op_allocs;
static std::vector<Pending> g_pending;
static Provider g_fail_prov = LIBC;
static FailKind g_fail_kind = FK_NONE;
static int g_fail_skip = 0;
static bool g_fail_fired = false;

const Env& env() { return g_env; }
const std::vector<Block>& op_allocs() { return g_op_allocs; }
bool has_pending() { return !g_pending.empty(); }
bool take_pending(Pending& out) {
  if (g_pending.empty()) return false;
  out = g_pending.front();
  g_pending.erase(g_pending.begin());
  return true;
}
static void pend(const char* cls, const char* fmt, const void* p, size_t n = 0) {
  char b[256];
  snprintf(b, sizeof b, fmt, p, n);
  if (g_pending.size() < 8) g_pending.push_back({cls, b});
}
void deactivate() { g_active = false; }
void set_op(int opidx, int opkind) {
  g_op = opidx;
  g_opkind = opkind;
  memset(g_ord, 0, sizeof g_ord);
  g_op_allocs.clear();
}
void arm_fail(Provider p, FailKind k, int skip) {
  g_fail_prov = p; g_fail_kind = k; g_fail_skip = skip; g_fail_fired = false;
}
bool disarm() { g_fail_kind = FK_NONE; return g_fail_fired; }
static bool should_fail(Provider p, bool is_realloc_null) {
  if (g_fail_kind == FK_NONE || p != g_fail_prov) return false;
  if (g_fail_kind == FK_MALLOC && is_realloc_null) return false;
  if (g_fail_kind == FK_REALLOC_NULL && !is_realloc_null) return false;
  if (g_fail_skip-- > 0) return false;
  g_fail_kind = FK_NONE;
  g_fail_fired = true;
  g_ctr[C_ALLOC_FAIL]++;
  return true;
}

static void fill_bytes(char* p, size_t n, uint8_t fill, uint64_t h) {
  if (!n) return;
  switch (fill) {
    case F_ZERO: memset(p, 0, n); break;
    case F_FF: memset(p, 0xff, n); break;
    case F_QUOTE: memset(p, '"', n); break;
    case F_BSLASH: memset(p, '\\', n); break;
    case F_NOISE: {
      uint64_t s = h | 1;
      size_t i = 0;
      for (; i + 8 <= n; i += 8) { s ^= s << 13; s ^= s >> 7; s ^= s << 17; memcpy(p + i, &s, 8); }
      for (; i < n; i++) { s ^= s << 13; s ^= s >> 7; s ^= s << 17; p[i] = (char)s; }
      break;
    }
    case F_FAKENODE: {
      // 16-byte cells that decode as array / object / owned string with length >= 1 whose
      // pointer word points into the trap page: any use of an unconstructed node faults or
      // frees a foreign pointer.
      static const uint64_t kinds[3] = {(1ull << 8) | 7 /*kArray*/, (2ull << 8) | 6 /*kObject*/,
                                        (5ull << 8) | 12 /*kStringFree*/};
      uint64_t cell[2] = {kinds[h % 3], (uint64_t)(uintptr_t)trap_ptr() + 64 + (h % 7) * 16};
      size_t i = 0;
      // keep cells aligned to 16 relative to absolute address
      size_t mis = (16 - ((uintptr_t)p & 15)) & 15;
      for (; i < mis && i < n; i++) p[i] = (char)0xA5;
      for (; i + 16 <= n; i += 16) memcpy(p + i, cell, 16);
      for (; i < n; i++) p[i] = (char)0xA5;
      break;
    }
  }
}
static const Ctr kFillCtr[NFILL] = {C_FILL_ZERO, C_FILL_FF, C_FILL_QUOTE, C_FILL_BSLASH, C_FILL_NOISE,
                                    C_FILL_FAKENODE};
static void fill_repeat(char* p, size_t n, const char* pat, size_t plen) {
  // p[i] = pat[i % plen], by doubling copies
  size_t done = plen < n ? plen : n;
  memcpy(p, pat, done);
  while (done < n) { size_t c = done < n - done ? done : n - done; memcpy(p + done, p, c); done += c; }
}
static void fill_neighbour(char* p, size_t n, bool hostile, const char* like, size_t like_len) {
  if (!n) return;
  if (like && like_len) {
    fill_repeat(p, n, like, like_len);
  } else if (hostile) {
    static const char pat[] = "\"\\\x01[{\"}],:\\\"\x1f\"";
    fill_repeat(p, n, pat, sizeof(pat) - 1);
  } else {
    memset(p, 0x2e, n);  // '.'
  }
}

#ifndef SIMMEM_SANITIZER
// ------------------------------------------------------------------ guarded arena
static const size_t PG = 4096;
static const size_t kHuge = 32u << 20;   // blocks above this are never filled or poisoned
static const uintptr_t kBase = 0x600000000000ULL;
struct Class { size_t np; size_t count; uintptr_t base; };
static Class g_cls[3] = {{1, 4096, 0}, {5, 384, 0}, {20, 96, 0}};
static uintptr_t g_trap, g_big_base, g_big_end, g_big_bump, g_arena_end;

enum SlotState : uint8_t { S_FREE = 0, S_LIVE = 1, S_FREED = 2 };
struct Slot {
  uint8_t state = S_FREE, prot = 0, prov = 0, via_realloc = 0;
  uint8_t place = 0;
  uint16_t ord = 0;
  uint32_t id = 0;
  int op = -1, opkind = -1;
  char* ptr = nullptr;
  size_t size = 0;
};
static std::vector<Slot> g_slots[3];
static std::vector<uint32_t> g_ring[3];   // free slot ring (deque semantics via head/tail)
static size_t g_head[3], g_cnt[3];
static std::vector<uint32_t> g_touched[3];
struct Big { uintptr_t base; size_t maplen; Slot s; };
static std::map<uintptr_t, Big> g_big;  // keyed by data start
// dense overflow: when a slot class is exhausted (tens of thousands of live blocks) small blocks are carved
// out of 4 MiB regions of the big area with hostile gaps between them but without a guard page each -
// one mapping per block would exceed vm.max_map_count. Ledger, poisoning and fills still apply.
static uintptr_t g_dense_cur = 0, g_dense_end = 0;
static const size_t kDenseRegion = 4u << 20;
static size_t g_live[NPROV];

void* trap_ptr() { return (void*)g_trap; }
bool guarded() { return true; }

static char* slot_data(int c, uint32_t i) { return (char*)(g_cls[c].base + (size_t)i * (g_cls[c].np + 1) * PG + PG); }

static int find_slot(const void* p, uint32_t& idx) {
  uintptr_t a = (uintptr_t)p;
  for (int c = 0; c < 3; c++) {
    uintptr_t b = g_cls[c].base, e = b + g_cls[c].count * (g_cls[c].np + 1) * PG + PG;
    if (a >= b && a < e) {
      size_t stride = (g_cls[c].np + 1) * PG;
      idx = (uint32_t)((a - b) / stride);   // idx == count: the guard page after the last slot
      return c;
    }
  }
  return -1;
}

void classify_addr(const void* addr, char* out, size_t outlen) {
  uintptr_t a = (uintptr_t)addr;
  if (a >= g_trap && a < g_trap + PG) { snprintf(out, outlen, "trap_page(use of unconstructed node/stale pointer)"); return; }
  uint32_t idx;
  int c = find_slot(addr, idx);
  if (c >= 0) {
    size_t stride = (g_cls[c].np + 1) * PG;
    uintptr_t sb = g_cls[c].base + idx * stride;
    bool in_guard = a < sb + PG;
    // guard page [sb, sb+PG) sits BEFORE slot idx and AFTER slot idx-1
    if (in_guard) {
      const Slot* after_of = idx > 0 ? &g_slots[c][idx - 1] : nullptr;
      const Slot* before_of = idx < g_cls[c].count ? &g_slots[c][idx] : nullptr;
      long d_after = after_of && after_of->ptr ? (long)(a - (uintptr_t)(after_of->ptr + after_of->size)) : -1;
      long d_before = before_of && before_of->ptr ? (long)((uintptr_t)before_of->ptr - a) : -1;
      if (after_of && after_of->state == S_LIVE && after_of->place == PL_END && d_after >= 0 && d_after < (long)PG)
        snprintf(out, outlen, "guard_after(+%ld past end of live block id=%u size=%zu prov=%d)", d_after, after_of->id, after_of->size, after_of->prov);
      else if (before_of && before_of->state == S_LIVE && before_of->place == PL_START && d_before > 0)
        snprintf(out, outlen, "guard_before(-%ld before start of live block id=%u size=%zu prov=%d)", d_before, before_of->id, before_of->size, before_of->prov);
      else
        snprintf(out, outlen, "guard_page(class %d slot %u)", c, idx);
      return;
    }
    if (idx >= g_cls[c].count) { snprintf(out, outlen, "guard_page(class %d end)", c); return; }
    const Slot& s = g_slots[c][idx];
    if (s.state == S_FREED) snprintf(out, outlen, "freed_block(id=%u size=%zu prov=%d freed, protected)", s.id, s.size, s.prov);
    else snprintf(out, outlen, "arena_data(class %d slot %u state %d)", c, idx, s.state);
    return;
  }
  if (a >= g_big_base && a < g_big_end) { snprintf(out, outlen, "big_area(guard or freed big block)"); return; }
  if (a < 4096) { snprintf(out, outlen, "null_page(addr=%p)", addr); return; }
  snprintf(out, outlen, "wild(addr=%p)", addr);
}

static void on_segv(int sig, siginfo_t* si, void*) {
  char cls[160], det[256];
  classify_addr(si->si_addr, cls, sizeof cls);
  snprintf(det, sizeof det, "signal=%d addr=%p %s", sig, si->si_addr, cls);
  if (g_on_fatal) g_on_fatal("memfault", det, g_op, g_opkind);
  _exit(70);
}

void init() {
  size_t total = 0;
  for (int c = 0; c < 3; c++) total += g_cls[c].count * (g_cls[c].np + 1) * PG + PG;
  size_t big = 64ull << 30;   // virtual only (NORESERVE): big blocks, incl. the rare > 4 GiB chunks of C16
  size_t all = PG /*trap*/ + total + big;
  void* m = mmap((void*)kBase, all, PROT_NONE, MAP_PRIVATE | MAP_ANONYMOUS | MAP_NORESERVE | MAP_FIXED_NOREPLACE, -1, 0);
  if (m != (void*)kBase) { perror("simmem: fixed arena mmap"); _exit(2); }
  g_trap = kBase;
  uintptr_t cur = kBase + PG;
  for (int c = 0; c < 3; c++) {
    g_cls[c].base = cur;
    g_slots[c].assign(g_cls[c].count, Slot());
    g_ring[c].resize(g_cls[c].count);
    for (uint32_t i = 0; i < g_cls[c].count; i++) {
      if (mprotect(slot_data(c, i), g_cls[c].np * PG, PROT_READ | PROT_WRITE)) { perror("mprotect"); _exit(2); }
      g_ring[c][i] = i;
    }
    g_head[c] = 0; g_cnt[c] = g_cls[c].count;
    cur += g_cls[c].count * (g_cls[c].np + 1) * PG + PG;
  }
  g_big_base = g_big_bump = cur;
  g_big_end = cur + big;
  g_arena_end = g_big_end;
  // alternate stack + handlers
  static char altstack[1 << 16];
  stack_t ss; ss.ss_sp = altstack; ss.ss_size = sizeof altstack; ss.ss_flags = 0;
  sigaltstack(&ss, nullptr);
  struct sigaction sa; memset(&sa, 0, sizeof sa);
  sa.sa_sigaction = on_segv; sa.sa_flags = SA_SIGINFO | SA_ONSTACK;
  sigaction(SIGSEGV, &sa, nullptr);
  sigaction(SIGBUS, &sa, nullptr);
}

void begin_run(const Env& e) {
  g_env = e;
  for (int c = 0; c < 3; c++) {
    for (uint32_t i : g_touched[c]) {
      Slot& s = g_slots[c][i];
      if (s.prot) mprotect(slot_data(c, i), g_cls[c].np * PG, PROT_READ | PROT_WRITE);
      s = Slot();
    }
    g_touched[c].clear();
    for (uint32_t i = 0; i < g_cls[c].count; i++) g_ring[c][i] = i;
    g_head[c] = 0; g_cnt[c] = g_cls[c].count;
  }
  if (!g_big.empty() || g_big_bump != g_big_base) {
    mmap((void*)g_big_base, g_big_bump - g_big_base, PROT_NONE, MAP_PRIVATE | MAP_ANONYMOUS | MAP_NORESERVE | MAP_FIXED, -1, 0);
    g_big.clear();
    g_big_bump = g_big_base;
    g_dense_cur = g_dense_end = 0;
  }
  memset(g_live, 0, sizeof g_live);
  g_pending.clear();
  g_next_id = 1;
  g_fail_kind = FK_NONE;
  g_active = true;
  set_op(-1, -1);
}

static Place pick_place(uint64_t h, Place want) {
  if (want != PL_AUTO) return want;
  unsigned tot = g_env.w_end + g_env.w_start + g_env.w_mid;
  if (!tot) return PL_END;
  unsigned r = (h >> 20) % tot;
  if (r < g_env.w_end) return PL_END;
  if (r < (unsigned)g_env.w_end + g_env.w_start) return PL_START;
  return PL_MID;
}

static char* place_in(char* data, size_t cap, size_t n, Place pl, bool align8, uint64_t h) {
  size_t off;
  if (pl == PL_START) off = 0;
  else if (pl == PL_END) { off = cap - n; if (align8) off &= ~(size_t)7; }
  else {
    size_t room = cap - n;
    off = room ? (h >> 8) % room : 0;
    off &= ~(size_t)7;
    if (!align8 && (n & 7)) off += (h >> 40) & 7, off = off > room ? room : off;
  }
  (void)data;
  return data + off;
}

static void* do_alloc(Provider p, size_t n, Place want, const char* like, size_t like_len, bool via_realloc) {
  if (n == 0) n = 1;
  uint16_t ord = g_ord[p]++;
  uint64_t h = sim::hdec(g_env.seed, (uint64_t)(g_op + 1), (uint64_t)p * 4 + (via_realloc ? 1 : 0), ord);
  // providers that hand out structured memory keep 8-byte alignment; odd sizes are char buffers
  bool align8 = (p == SIMBASE) || ((n & 7) == 0);
  if (p == CALLER) align8 = false;
  Place pl = pick_place(h, want);
  int c = n <= g_cls[0].np * PG ? 0 : n <= g_cls[1].np * PG ? 1 : n <= g_cls[2].np * PG ? 2 : 3;
  Slot* s; char* data; size_t cap; uint32_t idx = 0;
  bool dense = false;
  if (c < 3) {
    if (!g_cnt[c]) { dense = (c == 0); c = 3; }
  }
  if (dense) {
    size_t gap = 16 + (h & 8) + (align8 ? 0 : 1 + ((h >> 4) & 6));
    size_t need = gap + n + 32;
    if (g_dense_cur + need > g_dense_end) {
      size_t maplen = kDenseRegion + 2 * PG;
      if (g_big_bump + maplen > g_big_end) { fprintf(stderr, "simmem: big area exhausted\n"); _exit(2); }
      uintptr_t b = g_big_bump; g_big_bump += maplen;
      mprotect((void*)(b + PG), kDenseRegion, PROT_READ | PROT_WRITE);
      g_dense_cur = b + PG; g_dense_end = b + PG + kDenseRegion;
    }
    uintptr_t at = g_dense_cur + gap;
    if (align8) at = (at + 7) & ~(uintptr_t)7;
    char* ptr = (char*)at;
    fill_neighbour((char*)g_dense_cur, at - g_dense_cur, g_env.hostile, like, like_len);
    g_dense_cur = at + n;
    if (p != CALLER) { fill_bytes(ptr, n, g_env.fill, h); g_ctr[kFillCtr[g_env.fill]]++; }
    g_ctr[C_ALLOC]++; g_ctr[C_DENSE]++;
    Big bg; bg.base = 0; bg.maplen = 0;
    Slot* s = &g_big.emplace((uintptr_t)ptr, bg).first->second.s;
    s->state = S_LIVE; s->prov = p; s->place = PL_MID; s->ord = ord; s->id = g_next_id++;
    s->op = g_op; s->opkind = g_opkind; s->ptr = ptr; s->size = n; s->via_realloc = via_realloc;
    g_live[p]++;
    Block b; b.id = s->id; b.ptr = ptr; b.size = n; b.prov = p; b.op = g_op; b.opkind = g_opkind; b.ord = ord; b.via_realloc = via_realloc;
    if (g_op_allocs.size() < 4096) g_op_allocs.push_back(b);
    return ptr;
  }
  if (c < 3) {
    size_t N = g_cls[c].count;
    if (g_env.reuse_lifo) { /* take from the tail side = most recently freed */
      idx = g_ring[c][(g_head[c] + g_cnt[c] - 1) % N];
    } else {
      idx = g_ring[c][g_head[c]];
      g_head[c] = (g_head[c] + 1) % N;
    }
    g_cnt[c]--;
    s = &g_slots[c][idx];
    if (s->state == S_FREE && s->id == 0) g_touched[c].push_back(idx);
    data = slot_data(c, idx); cap = g_cls[c].np * PG;
    if (s->prot) { mprotect(data, cap, PROT_READ | PROT_WRITE); s->prot = 0; }
    if (s->state == S_FREED && g_env.reuse_lifo) g_ctr[C_REUSE_LIFO]++;
  } else {
    size_t np = (n + PG - 1) / PG;
    size_t maplen = (np + 2) * PG;
    if (g_big_bump + maplen > g_big_end) { fprintf(stderr, "simmem: big area exhausted\n"); _exit(2); }
    uintptr_t b = g_big_bump; g_big_bump += maplen;
    mprotect((void*)(b + PG), np * PG, PROT_READ | PROT_WRITE);
    data = (char*)(b + PG); cap = np * PG;
    g_ctr[C_BIG]++;
    Big bg; bg.base = b; bg.maplen = maplen;
    char* ptr0 = place_in(data, cap, n, pl, align8, h);
    auto it = g_big.emplace((uintptr_t)ptr0, bg).first;
    s = &it->second.s;
  }
  char* ptr = place_in(data, cap, n, pl, align8, h);
  // fresh contents: whole slot area is rewritten so nothing leaks from earlier runs
  size_t pre = ptr - data, post = cap - pre - n;
  if (cap <= 5 * PG || p == CALLER) {
    fill_neighbour(data, pre, g_env.hostile, like, like_len);
    fill_neighbour(ptr + n, post, g_env.hostile, like, like_len);
  } else {  // large slots: neighbours within one page on each side are enough
    size_t a = pre > PG ? PG : pre, b2 = post > PG ? PG : post;
    fill_neighbour(ptr - a, a, g_env.hostile, like, like_len);
    fill_neighbour(ptr + n, b2, g_env.hostile, like, like_len);
  }
  if (p != CALLER && n <= kHuge) { fill_bytes(ptr, n, g_env.fill, h); g_ctr[kFillCtr[g_env.fill]]++; }   // huge blocks stay untouched (fresh zero pages)
  g_ctr[C_ALLOC]++;
  if (pl == PL_END && post == 0) g_ctr[C_GUARD_AFTER]++;
  if (pl == PL_START) g_ctr[C_GUARD_BEFORE]++;
  if (pl == PL_MID) g_ctr[C_MID]++;
  if ((g_env.hostile || like) && (pre || post)) g_ctr[C_HOSTILE]++;
  s->state = S_LIVE; s->prov = p; s->place = pl; s->ord = ord; s->id = g_next_id++;
  s->op = g_op; s->opkind = g_opkind; s->ptr = ptr; s->size = n; s->via_realloc = via_realloc;
  g_live[p]++;
  Block b; b.id = s->id; b.ptr = ptr; b.size = n; b.prov = p; b.op = g_op; b.opkind = g_opkind; b.ord = ord; b.via_realloc = via_realloc;
  if (g_op_allocs.size() < 4096) g_op_allocs.push_back(b);
  return ptr;
}

static Slot* lookup(const void* ptr, int& c, uint32_t& idx, bool& interior) {
  interior = false;
  c = find_slot(ptr, idx);
  if (c >= 0 && idx >= g_cls[c].count) return nullptr;
  if (c >= 0) {
    Slot& s = g_slots[c][idx];
    if (s.ptr == ptr) return &s;
    if (s.ptr && (const char*)ptr > s.ptr && (const char*)ptr < s.ptr + s.size) interior = true;
    return nullptr;
  }
  auto it = g_big.find((uintptr_t)ptr);
  if (it != g_big.end()) { c = 3; return &it->second.s; }
  return nullptr;
}

static void release_slot(Slot* s, int c, uint32_t idx) {
  if (s->size <= kHuge) memset(s->ptr, 0xDD, s->size);
  g_ctr[C_FREE_POISON]++;
  s->state = S_FREED;
  g_live[s->prov]--;
  if (c < 3) {
    if (g_env.free_protect) {
      mprotect(slot_data(c, idx), g_cls[c].np * PG, PROT_NONE); s->prot = 1; g_ctr[C_FREE_PROTECT]++;
    }
    size_t N = g_cls[c].count;
    g_ring[c][(g_head[c] + g_cnt[c]) % N] = idx;
    g_cnt[c]++;
  } else {
    auto it = g_big.find((uintptr_t)s->ptr);
    if (it->second.maplen == 0) return;   // dense overflow block: poisoned, not protected
    size_t np = it->second.maplen / PG - 2;
    mprotect((void*)(it->second.base + PG), np * PG, PROT_NONE);
    g_ctr[C_FREE_PROTECT]++;
  }
}

void* alloc(Provider p, size_t n) {
  if (should_fail(p, false)) return nullptr;
  return do_alloc(p, n, PL_AUTO, nullptr, 0, false);
}

void free_(Provider p, void* ptr) {
  if (!ptr) return;
  int c; uint32_t idx; bool interior;
  Slot* s = lookup(ptr, c, idx, interior);
  if (!s) {
    pend("ledger", interior ? "free of interior pointer %p" : "free of foreign pointer %p (never handed out)", ptr);
    return;
  }
  if (s->state != S_LIVE) { pend("ledger", "double free of %p (size %zu)", ptr, s->size); return; }
  if (s->prov != p) { pend("ledger", "block %p (size %zu) freed through a different provider than issued it", ptr, s->size); return; }
  release_slot(s, c, idx);
}

void* realloc_(Provider p, void* old, size_t n) {
  if (!old) {
    if (should_fail(p, true)) return nullptr;
    return do_alloc(p, n, PL_AUTO, nullptr, 0, true);
  }
  int c; uint32_t idx; bool interior;
  Slot* s = lookup(old, c, idx, interior);
  if (!s || s->state != S_LIVE || s->prov != p) {
    pend("ledger", "realloc of pointer %p that is not a live block of this provider", old);
    return nullptr;
  }
  if (n == 0) n = 1;
  size_t osz = s->size;
  if (g_env.realloc_inplace && c < 3) {
    char* data = slot_data(c, idx); size_t cap = g_cls[c].np * PG;
    if (n <= osz) {  // shrink in place
      memset(s->ptr + n, 0xDD, osz - n); s->size = n; g_ctr[C_REALLOC_INPLACE]++; return old;
    }
    if (s->ptr + n <= data + cap) {
      uint64_t h = sim::hdec(g_env.seed, (uint64_t)(g_op + 1), 99, g_ord[p]++);
      fill_bytes(s->ptr + osz, n - osz, g_env.fill, h);
      s->size = n; g_ctr[C_REALLOC_INPLACE]++; return old;
    }
  }
  void* nu = do_alloc(p, n, PL_AUTO, nullptr, 0, true);
  memcpy(nu, old, osz < n ? osz : n);
  // re-lookup: do_alloc may have touched vectors but slots are stable; big map iterators too
  s = lookup(old, c, idx, interior);
  release_slot(s, c, idx);
  g_ctr[C_REALLOC_MOVE]++;
  return nu;
}

char* caller_buf(const void* data, size_t n, Place pl, const char* like, size_t like_len) {
  char* p = (char*)do_alloc(CALLER, n, pl, like, like_len, false);
  if (n) memcpy(p, data, n);
  return p;
}
char* caller_raw(size_t n) {
  return (char*)do_alloc(CALLER, n, PL_END, nullptr, 0, false);
}
void caller_release(char* p) {
  bool save = g_env.free_protect; g_env.free_protect = 1;
  free_(CALLER, p);
  g_env.free_protect = save;
  g_ctr[C_CALLER_RELEASE]++;
}
void caller_free(char* p) { free_(CALLER, p); }

size_t live_count(Provider p) { return g_live[p]; }
void live_blocks(Provider p, std::vector<Block>& out) {
  out.clear();
  for (int c = 0; c < 3; c++)
    for (uint32_t i : g_touched[c]) {
      const Slot& s = g_slots[c][i];
      if (s.state == S_LIVE && s.prov == p) {
        Block b; b.id = s.id; b.ptr = s.ptr; b.size = s.size; b.prov = s.prov; b.op = s.op; b.opkind = s.opkind; b.ord = s.ord; b.via_realloc = s.via_realloc;
        out.push_back(b);
      }
    }
  for (auto& kv : g_big) {
    const Slot& s = kv.second.s;
    if (s.state == S_LIVE && s.prov == p) {
      Block b; b.id = s.id; b.ptr = s.ptr; b.size = s.size; b.prov = s.prov; b.op = s.op; b.opkind = s.opkind; b.ord = s.ord; b.via_realloc = s.via_realloc;
      out.push_back(b);
    }
  }
}
bool is_live(const void* p) {
  int c; uint32_t idx; bool interior;
  Slot* s = lookup(p, c, idx, interior);
  return s && s->state == S_LIVE;
}

#else
// ------------------------------------------------------------------ sanitizer mode
static std::unordered_map<const void*, Block> g_led;
static std::unordered_map<const void*, size_t> g_freed;  // recently freed (for double-free detection)
static size_t g_live[NPROV];
static void* g_trap_page;

void* trap_ptr() { return g_trap_page; }
bool guarded() { return false; }
void classify_addr(const void* addr, char* out, size_t outlen) { snprintf(out, outlen, "addr=%p", addr); }

void init() {
  g_trap_page = mmap(nullptr, 4096, PROT_NONE, MAP_PRIVATE | MAP_ANONYMOUS, -1, 0);
}
void begin_run(const Env& e) {
  g_env = e;
  for (auto& kv : g_led) __real_free((void*)kv.first);
  g_led.clear(); g_freed.clear();
  memset(g_live, 0, sizeof g_live);
  g_pending.clear();
  g_next_id = 1;
  g_fail_kind = FK_NONE;
  g_active = true;
  set_op(-1, -1);
}
static void* do_alloc(Provider p, size_t n, bool via_realloc) {
  if (n == 0) n = 1;
  uint16_t ord = g_ord[p]++;
  uint64_t h = sim::hdec(g_env.seed, (uint64_t)(g_op + 1), (uint64_t)p * 4 + (via_realloc ? 1 : 0), ord);
  char* ptr = (char*)__real_malloc(n);
  if (p != CALLER) { fill_bytes(ptr, n, g_env.fill, h); g_ctr[kFillCtr[g_env.fill]]++; }
  g_ctr[C_ALLOC]++;
  Block b; b.id = g_next_id++; b.ptr = ptr; b.size = n; b.prov = p; b.op = g_op; b.opkind = g_opkind; b.ord = ord; b.via_realloc = via_realloc;
  g_led[ptr] = b; g_freed.erase(ptr);
  g_live[p]++;
  if (g_op_allocs.size() < 4096) g_op_allocs.push_back(b);
  return ptr;
}
void* alloc(Provider p, size_t n) {
  if (should_fail(p, false)) return nullptr;
  return do_alloc(p, n, false);
}
void free_(Provider p, void* ptr) {
  if (!ptr) return;
  auto it = g_led.find(ptr);
  if (it == g_led.end()) {
    if (g_freed.count(ptr)) pend("ledger", "double free of %p", ptr);
    else pend("ledger", "free of foreign/interior pointer %p (never handed out)", ptr);
    return;
  }
  if (it->second.prov != p) { pend("ledger", "block %p (size %zu) freed through a different provider than issued it", ptr, it->second.size); return; }
  memset(ptr, 0xDD, it->second.size);
  g_ctr[C_FREE_POISON]++;
  g_live[p]--;
  g_freed[ptr] = it->second.size;
  g_led.erase(it);
  __real_free(ptr);
}
void* realloc_(Provider p, void* old, size_t n) {
  if (!old) {
    if (should_fail(p, true)) return nullptr;
    return do_alloc(p, n, true);
  }
  auto it = g_led.find(old);
  if (it == g_led.end() || it->second.prov != p) { pend("ledger", "realloc of pointer %p that is not a live block of this provider", old); return nullptr; }
  size_t osz = it->second.size;
  if (n == 0) n = 1;
  void* nu = do_alloc(p, n, true);
  memcpy(nu, old, osz < n ? osz : n);
  free_(p, old);
  g_ctr[C_REALLOC_MOVE]++;
  return nu;
}
char* caller_buf(const void* data, size_t n, Place, const char*, size_t) {
  char* p = (char*)do_alloc(CALLER, n, false);
  if (n) memcpy(p, data, n);
  return p;
}
char* caller_raw(size_t n) { return (char*)do_alloc(CALLER, n, false); }
void caller_release(char* p) { free_(CALLER, p); g_ctr[C_CALLER_RELEASE]++; }
void caller_free(char* p) { free_(CALLER, p); }
size_t live_count(Provider p) { return g_live[p]; }
void live_blocks(Provider p, std::vector<Block>& out) {
  out.clear();
  for (auto& kv : g_led) if (kv.second.prov == p) out.push_back(kv.second);
}
bool is_live(const void* p) { return g_led.count(p) != 0; }
#endif

}  // namespace simmem

// libc seam (-Wl,--wrap=malloc,--wrap=realloc,--wrap=free,--wrap=calloc): header code compiled
// into the harness (SimpleAllocator, parser node stack, internal::Stack) lands here.
extern "C" {
void* __wrap_malloc(size_t n) {
  if (!simmem::g_active) return __real_malloc(n);
  return simmem::alloc(simmem::LIBC, n);
}
void* __wrap_realloc(void* p, size_t n) {
  if (!simmem::g_active) return __real_realloc(p, n);
  if (p && n == 0) { simmem::free_(simmem::LIBC, p); return nullptr; }
  return simmem::realloc_(simmem::LIBC, p, n);
}
void __wrap_free(void* p) {
  if (!simmem::g_active) { __real_free(p); return; }
  if (p) simmem::free_(simmem::LIBC, p);
}
}
