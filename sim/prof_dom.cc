// DOM interpreter + profiles C02, C06, C12, C13, C18, C19 (DESIGN §3).
// One interpreter executes plans (histories of DOM operations on document slots of three
// allocator flavours) under two memory environments and judges them against the reference model.
#include "dom_exec.h"

namespace {
using namespace simdom;

// ------------------------------------------------------------------ execution wrapper
static void exec_dom(const Plan& p, Outcome& out) {
  RunResult res[2];
  uint64_t envseed = (uint64_t)p.K("envseed", 1);
  uint32_t chk = (uint32_t)p.K("chk", 0);
  int nenv = (chk & CHK_ENVDEP) ? 2 : 1;
  uint64_t fired0 = 0;
  for (int e = 0; e < nenv; e++) {
    simmem::Env env = make_env(envseed, e);
    if (p.K("env_plain", 0)) { env.fill = simmem::F_ZERO; env.free_protect = 0; }
    simmem::g_fatal_ctx.env_id = e;
    uint64_t c0 = simmem::g_ctr[simmem::C_ALLOC];
    simmem::begin_run(env);
    DomExec* x = new DomExec(p, e, res[e]);
    try {
      x->run();
      delete x;
    } catch (Violation& v) {
      out.violated = true; out.vclass = v.cls; out.site = v.site; out.detail = v.detail + " [env " + std::to_string(e) + "]"; out.op = x->cur_op;
      out.ops_executed = res[e].executed; out.ops_skipped = res[e].skipped;
      if (g_verbose) out.obs_text = res[e].op_text;
      g_tight_growth = 0;
      return;  // x intentionally leaked: its documents may be corrupt
    }
    if (e == 0) fired0 = simmem::g_ctr[simmem::C_ALLOC] - c0;
  }
  out.ops_executed = res[0].executed; out.ops_skipped = res[0].skipped;
  out.op_hashes = res[0].op_hashes;
  out.outcome_vec = res[0].outcome_vec;
  out.known = res[0].known;
  out.faults_fired = fired0;
  uint64_t h = 0xabcdef;
  for (auto x : res[0].op_hashes) h = mix64(h ^ x);
  out.obs_hash = h;
  if (g_verbose) out.obs_text = res[0].op_text;
  if (nenv == 2) {
    for (size_t i = 0; i < res[0].op_hashes.size() && i < res[1].op_hashes.size(); i++) {
      if (res[0].op_hashes[i] != res[1].op_hashes[i]) {
        out.violated = true; out.vclass = "env_dependence"; out.op = (int)i; out.site = p.ops[i].kind + ":observation";
        out.detail = "observations of op " + std::to_string(i) + " (" + p.ops[i].kind + ") differ between two memory environments (fill/placement/move policy) although the plan is identical";
        if (g_verbose) { out.obs_text = res[0].op_text; out.obs_text.push_back("---- env 1"); out.obs_text.insert(out.obs_text.end(), res[1].op_text.begin(), res[1].op_text.end()); }
        return;
      }
    }
  }
}

// ------------------------------------------------------------------ generators
struct Gen {
  Rng r;
  Plan& p;
  model::GenOpts go;
  bool big = false;   // rare runs with containers of up to 1800 elements and strings of up to 70 KB
  bool huge = false;  // very rare runs in which the first bulk insertion adds 60000..72000 elements (crosses 65536)
  bool huge_done = false;
  Gen(uint64_t s, Plan& pl) : r(s), p(pl) {}
  std::string path() { std::string s; size_t n = r.below(4); for (size_t i = 0; i < n; i++) s += (char)r.below(256); return s; }
  std::string val(int depth = 2) { model::GenOpts g = go; g.max_depth = depth; return model::canon(model::gen_value(r, g)); }
  std::string scalar() { return model::canon(model::gen_scalar(r, go)); }
  Op& add(const char* k) { p.ops.emplace_back(); p.ops.back().kind = k; return p.ops.back(); }
  int64_t slot() { return (int64_t)r.below(NSLOT); }

  // short scripted scenarios on ONE node (same slot and path): multi-step interactions that independent random ops
  // line up only rarely
  void scenario() {
    int64_t sl = slot(); std::string pth = path();
    auto op1 = [&](const char* k) -> Op& { Op& o = add(k); o.a.push_back(sl); o.s.push_back(pth); return o; };
    auto addm = [&](int n) { for (int i = 0; i < n; i++) { Op& o = op1("AddMember"); o.a.push_back((int64_t)r.below(2)); o.s.push_back(model::gen_key(r, go)); o.s.push_back(scalar()); } };
    switch (r.below(10)) {
      case 9: {   // a long array of plain scalars that ends in a few values owning memory, then deep-copied (bulk-copy fast paths)
        JVal v = JVal::arr();
        size_t n = (size_t)r.range(28, 80);
        for (size_t i = 0; i < n; i++) v.a.push_back(i % 7 == 3 ? JVal::boolean(i & 1) : i % 7 == 5 ? JVal::null() : (i % 2 ? JVal::uint(i * 11) : JVal::real((double)i / 4)));
        size_t tail = (size_t)r.range(0, 3);
        for (size_t i = 0; i < tail; i++) { JVal x; switch (r.below(3)) { case 0: x = JVal::str("tail" + std::to_string(i)); break; case 1: x = JVal::arr(); x.a.push_back(JVal::str("in")); break; default: x = JVal::obj(); x.o.emplace_back("k", JVal::uint(i)); } v.a.push_back(x); }
        if (r.chance(1, 3)) { JVal w = JVal::obj(); w.o.emplace_back("arr", std::move(v)); v = std::move(w); }
        Op& b = op1("Build"); b.a.push_back((int64_t)r.below(3)); b.s.push_back(model::canon(v));
        Op& c = add("CopyFrom"); c.a = {slot(), sl, (int64_t)r.below(2)}; c.s = {path(), pth};
        break;
      }
      case 8: {   // an object whose keys mix scripts, lengths and shared prefixes (the lookup map orders them): long UTF-8, long ASCII, short,
                  // keys equal up to an embedded NUL, keys that are prefixes of each other
        op1("SetObject");
        bool map_first = r.chance(1, 3);
        if (map_first) op1("CreateMap");
        std::vector<std::string> ks;
        static const char* u8[] = {"\xe4\xb8\xad", "\xe6\x96\x87", "\xc3\xa9", "\xc3\xbc", "\xf0\x9f\x98\x80", "\xd0\xb6"};
        auto longkey = [&](bool utf) { std::string k; size_t want = (size_t)r.range(32, r.chance(1, 3) ? 300 : 140); while (k.size() < want) { if (utf && r.chance(2, 3)) k += u8[r.below(6)]; else k += (char)('a' + r.below(26)); if (r.chance(1, 9)) k += '.'; } return k; };
        size_t n = (size_t)r.range(8, 16);
        std::string nulstem = std::string("k") + (char)('a' + r.below(3)) + std::string(1, '\0');
        std::string stem = longkey(r.chance(1, 2));
        for (size_t i = 0; i < n; i++) {
          std::string k;
          switch (r.below(7)) {
            case 0: k = longkey(true); break;
            case 1: k = longkey(false); break;
            case 2: k = model::gen_key(r, go); break;
            case 3: k = nulstem + (char)('a' + r.below(6)); break;                                  // equal up to the NUL, equal length
            case 4: k = stem.substr(0, (size_t)r.range(1, (int64_t)stem.size())); break;               // prefixes of one long key
            case 5: { k = stem; k[r.below(k.size())] ^= (char)(r.chance(1, 2) ? 0x80 : 0x01); break; }   // one byte away from it
            default: k = std::string(u8[r.below(6)]) + (char)('0' + r.below(10)); break;               // short non-ASCII
          }
          bool dup = false; for (auto& e : ks) if (e == k) dup = true;
          if (dup && !go.dup_keys) continue;
          ks.push_back(k);
          Op& o = op1("AddMember"); o.a.push_back((int64_t)r.below(2)); o.s.push_back(k); o.s.push_back(scalar());
        }
        if (!map_first) op1("CreateMap");
        op1("Lookup");
        if (!ks.empty()) { Op& rm = op1("RemoveMember"); rm.s.push_back(ks[r.below(ks.size())]); op1("Lookup"); }
        if (!ks.empty() && r.chance(1, 2)) { Op& a2 = op1("AddMember"); a2.a.push_back((int64_t)r.below(2)); a2.s.push_back(ks[r.below(ks.size())] + "~"); a2.s.push_back(scalar()); op1("Lookup"); }
        break;
      }
      case 0: { op1("SetObject"); addm((int)r.range(2, 6)); op1("CreateMap"); Op& e = op1("EraseMember"); e.a = {sl, (int64_t)r.range(1, 5), 7, 0}; addm((int)r.range(1, 3)); op1("Lookup"); Op& rm = op1("RemoveMember"); rm.s.push_back(model::gen_key(r, go)); op1("Lookup"); break; }
      case 1: { op1("SetObject"); addm((int)r.range(1, 5)); op1("CreateMap"); Op& rm = op1("RemoveMember"); rm.s.push_back(model::gen_key(r, go)); addm(1); op1("Lookup"); break; }
      case 2: { op1("SetArray"); Op& rs = op1("Reserve"); rs.a.push_back(1); for (int i = 0; i < 3; i++) { Op& pb = op1("PushBack"); pb.s.push_back(scalar()); } break; }
      case 3: { op1("SetObject"); op1("CreateMap"); Op& mr = op1("MemberReserve"); mr.a.push_back((int64_t)r.range(17, 40)); addm((int)r.range(1, 4)); op1("Lookup"); break; }
      case 4: { op1("SetObject"); Op& mr = op1("MemberReserve"); mr.a.push_back((int64_t)r.range(1, 4)); addm(1); op1("CreateMap"); Op& an = op1("AddMemberN"); an.a.push_back((int64_t)r.range(16, 40)); an.a.push_back((int64_t)r.below(2)); op1("Lookup"); break; }
      case 5: { op1("SetObject"); addm((int)r.range(1, 4)); op1("CreateMap"); op1("Clear"); addm((int)r.range(1, 4)); op1("Lookup"); op1("CreateMap"); op1("Lookup"); break; }
      case 6: { op1("SetObject"); addm((int)r.range(2, 5)); op1("CreateMap"); for (int i = 0; i < 3; i++) { Op& rm = op1("RemoveMember"); rm.s.push_back(model::gen_key(r, go)); } op1("Lookup"); Op& mr = op1("MemberReserve"); mr.a.push_back((int64_t)r.range(20, 40)); addm(2); op1("Lookup"); break; }
      default: { op1("SetArray"); Op& pn = op1("PushBackN"); pn.a.push_back((int64_t)r.range(1, 20)); pn.a.push_back(0); Op& er = op1("Erase"); er.a = {sl, (int64_t)r.below(8), (int64_t)r.below(8), (int64_t)r.below(2)}; Op& pb = op1("PushBack"); pb.s.push_back(val(1)); op1("PopBack"); break; }
    }
  }
  void mutation_op() {
    if (r.chance(1, 14)) { scenario(); return; }
    static const char* kinds[] = {"AddMember", "AddMember", "AddMember", "AddMember", "AddMember", "AddMember", "RemoveMember", "RemoveMember", "RemoveMember", "RemoveMember",
                                  "EraseMember", "MemberReserve", "PushBack", "PushBack", "PushBack", "PushBack", "PopBack", "PopBack", "Erase", "Erase", "Reserve", "Clear",
                                  "Assign", "Assign", "SetNull", "SetBool", "SetInt", "SetUint", "SetDouble", "SetStr", "SetStr", "SetArray", "SetObject",
                                  "CopyFrom", "CopyFrom", "MoveNode", "SwapNode", "CreateMap", "CreateMap", "CreateMap", "DestroyMap", "AtPointer", "AtPointer", "Lookup", "Build", "PushBackN", "AddMemberN", "CtorAssign",
                                  "Stash", "Unstash"};
    const char* k = kinds[r.below(sizeof(kinds) / sizeof(kinds[0]))];
    Op& op = add(k);
    op.a.push_back(slot());
    std::string kn = k;
    bool destructive = kn.compare(0, 3, "Set") == 0 || kn == "Assign" || kn == "CtorAssign" || kn == "Build" || kn == "Clear" || kn == "CopyFrom";
    std::string pth = path();
    if (destructive && pth.empty() && !r.chance(1, 8)) { pth += (char)r.below(256); if (r.chance(1, 2)) pth += (char)r.below(256); }
    op.s.push_back(pth);
    if (kn == "AddMember") { op.a.push_back((int64_t)r.below(2)); op.s.push_back(model::gen_key(r, go)); op.s.push_back(val(r.chance(1, 4) ? 2 : 1)); if (r.chance(1, 25)) op.fault = FT_STRCOPY_FAIL; }
    else if (kn == "RemoveMember") op.s.push_back(model::gen_key(r, go));
    else if (kn == "PushBackN" || kn == "AddMemberN") { if (huge && !huge_done) { huge_done = true; op.a.push_back((int64_t)r.range(60000, 72000)); } else op.a.push_back((int64_t)(big && !huge ? r.below(1800) : (r.chance(1, 2) ? r.below(48) : r.below(12)))); op.a.push_back((int64_t)r.below(2)); }
    else if (kn == "EraseMember" || kn == "Erase") { op.a.push_back((int64_t)r.below(8)); op.a.push_back((int64_t)r.below(r.chance(1, 2) ? 2 : 8)); op.a.push_back((int64_t)r.below(2)); }
    else if (kn == "MemberReserve" || kn == "Reserve") op.a.push_back((int64_t)(r.chance(1, 3) ? r.below(70) : r.below(20)));
    else if (kn == "PushBack") op.s.push_back(val(r.chance(1, 4) ? 2 : 1));
    else if (kn == "Assign" || kn == "Build") { op.a.push_back((int64_t)r.below(3)); op.s.push_back(val(kn == "Build" ? 3 : 2)); }
    else if (kn == "SetBool") op.a.push_back((int64_t)r.below(2));
    else if (kn == "CtorAssign") { op.a.push_back((int64_t)r.below(9)); op.a.push_back(r.chance(1, 2) ? r.range(-70000, 70000) : (int64_t)r.next()); }
    else if (kn == "SetInt") op.a.push_back(r.chance(1, 2) ? r.range(-1000, 1000) : (int64_t)r.next());
    else if (kn == "SetUint") op.a.push_back((int64_t)(r.chance(1, 2) ? r.below(100) : r.next()));
    else if (kn == "SetDouble") op.a.push_back((int64_t)model::gen_double_bits(r, go.nonfinite));
    else if (kn == "SetStr") { op.a.push_back((int64_t)r.below(2)); op.s.push_back(model::gen_string(r, go)); if (r.chance(1, 25)) op.fault = FT_STRCOPY_FAIL; }
    else if (kn == "CopyFrom") { op.a.push_back(slot()); op.s.push_back(path()); op.a.push_back((int64_t)r.below(2)); }
    else if (kn == "MoveNode" || kn == "SwapNode") op.s.push_back(path());
    else if (kn == "AtPointer") op.s.push_back(pspec(3));
  }
  std::string pspec(int maxlen) {
    std::vector<PSpec> v; size_t n = r.below((uint64_t)maxlen + 1);
    for (size_t i = 0; i < n; i++) {
      PSpec e; e.n = 0;
      switch (r.below(6)) {
        case 0: e.t = 'k'; e.key = model::gen_key(r, go); break;
        case 1: case 2: e.t = 'K'; e.n = (int64_t)r.below(8); break;
        case 3: case 4: e.t = 'I'; e.n = (int64_t)r.below(8); break;
        default: e.t = 'i'; e.n = r.range(-2, 9); break;
      }
      v.push_back(e);
    }
    return pspec_encode(v);
  }
  void seed_docs(int howmany, int depth) {
    // most slots start as a container so that few later ops find nothing to work on
    for (int i = 0; i < NSLOT; i++) {
      if (i >= howmany && !r.chance(2, 3)) continue;
      Op& op = add("Build"); op.a.push_back(i); op.s.push_back(""); op.a.push_back((int64_t)r.below(3));
      model::GenOpts g = go; g.max_depth = depth;
      JVal v = r.chance(3, 4) ? (r.chance(1, 2) ? JVal::obj() : JVal::arr()) : JVal::null();
      if (v.k == JVal::Obj) { size_t n = r.below(6); for (size_t j = 0; j < n; j++) { std::string k = model::gen_key(r, g); if (!g.dup_keys && v.find(k) >= 0) continue; v.o.emplace_back(k, model::gen_value(r, g, 1)); } }
      if (v.k == JVal::Arr) { size_t n = r.below(6); for (size_t j = 0; j < n; j++) v.a.push_back(model::gen_value(r, g, 1)); }
      op.s.push_back(model::canon(v));
    }
  }
  std::string text_valid(int depth, int ws_max) {
    model::GenOpts g = go; g.max_depth = depth;
    if (r.chance(1, 20)) return model::write(model::gen_dense_value(r));   // compact: the most nodes a text of that length can hold
    JVal v = model::gen_value(r, g);
    if (r.chance(1, 2) && !v.is_container()) { JVal w = r.chance(1, 2) ? JVal::arr() : JVal::obj(); if (w.k == JVal::Arr) w.a.push_back(v); else w.o.emplace_back("k", v); v = w; }
    std::string t; model::WriteOpts wo; wo.ws_rng = &r; wo.ws_max = ws_max; wo.escape_more = r.chance(1, 3);
    model::write(v, t, wo);
    return t;
  }
  std::string mutate(std::string t) {
    if (t.empty()) return t;
    switch (r.below(6)) {
      case 0: t.resize(r.below(t.size() + 1)); break;                     // truncate at a prefix
      case 1: t[r.below(t.size())] = r.chance(1, 8) ? '\0' : (char)r.below(256); break;           // single byte mutation (a stray NUL now and then)
      case 2: { static const char sp[] = "[]{}\",:\\"; t[r.below(t.size())] = sp[r.below(sizeof(sp) - 1)]; break; }
      case 3: t.erase(r.below(t.size()), 1); break;
      case 4: { static const char sp[] = "[]{}\",:\\0-e."; t.insert(r.below(t.size() + 1), 1, sp[r.below(sizeof(sp) - 1)]); break; }
      default: { size_t a = r.below(t.size()); size_t b = r.below(t.size()); std::swap(t[a], t[b]); break; }
    }
    return t;
  }
  std::string nest_text() {
    // deep and UNEVEN nesting: more containers opened than closed
    size_t k = (size_t)r.range(1, r.chance(1, 3) ? 80 : 24), j = r.below(k + 1);
    std::string t;
    bool objs = r.chance(1, 3);
    for (size_t i = 0; i < k; i++) { if (objs && r.chance(1, 2)) t += "{\"a\":"; else t += '['; if (r.chance(1, 6)) t += r.chance(1, 2) ? "1," : "\"\","; }
    if (r.chance(1, 2)) { static const char* mid[] = {"1", "\"\"", "\"\",\"\",\"\"", "null", "{}", "[]", "\"a\",\"b\"", "1,2,3", ""}; t += mid[r.below(9)]; }
    for (size_t i = 0; i < j; i++) t += r.chance(1, 4) && objs ? '}' : ']';
    return t;
  }
};

static uint64_t run_seed(uint64_t seed, const char* prop, uint64_t run) { return mix3(seed, prop_tag(prop), run); }

static void common_knobs(Plan& p, Gen& g, uint64_t rs, uint32_t chk) {
  if (g.r.chance(1, 3)) { static const int fl[] = {13, 14, 15, 24, 33, 40, 65, 70, 97, 130, 200, 225, 240, 255, 256, 300, 520}; g.go.family_len = fl[g.r.below(g.r.chance(1, 3) ? 17 : 11)]; }
  { static const int64_t wa[] = {1, 1, 2, 4, 8}; p.knobs["walk_all_every"] = getenv("SIM_WALK") ? atoi(getenv("SIM_WALK")) : wa[g.r.below(5)]; }
  if (g.r.chance(1, 120)) { g.big = true; p.knobs["big"] = 1; g.go.huge_strings = true; }
  else if (g.r.chance(1, getenv("SIM_HUGE") ? 12 : 2500)) { g.big = true; g.huge = true; p.knobs["big"] = 2; }   // SIM_HUGE: development aid, makes the rare huge plans frequent
  p.knobs["envseed"] = (int64_t)(mix64(rs ^ 0x77) >> 1);
  p.knobs["chk"] = chk;
  p.knobs["str_mode"] = (int64_t)g.r.below(3);
  p.knobs["own_alloc"] = (int64_t)g.r.below(64);
  p.knobs["share_pool"] = (int64_t)g.r.chance(1, 3);
  p.knobs["user_buffer_pool"] = (int64_t)(g.r.chance(1, 4) ? 1 + g.r.below(8) : 0);   // pools over a caller buffer misaligned by (k-1)
}

// ---- C12: mutation API vs ordered containers (no Parse anywhere)
static void gen_c12(uint64_t seed, uint64_t run, const std::string& tier, Plan& p) {
  uint64_t rs = run_seed(seed, "C12", run);
  Gen g(rs, p);
  p.prop = "C12"; p.seed = seed; p.run = run; p.tier = tier;
  common_knobs(p, g, rs, CHK_WALK | CHK_LOOKUP | CHK_ENVDEP);
  g.go.dup_keys = g.r.chance(1, 3); g.go.big_strings = g.r.chance(1, 2); g.go.key_alphabet = (int)g.r.range(2, 8);
  p.knobs["flavours"] = g.r.chance(1, 4) ? (int64_t)(1 + g.r.below(7)) : 7;
  g.seed_docs((int)g.r.range(1, 4), 2);
  size_t n = (size_t)g.r.range(3, tier == "thorough" ? 60 : 40);
  for (size_t i = 0; i < n; i++) g.mutation_op();
}

// ---- C13: ledger + copy independence (freeing flavours), adds doc-level ops and the parse family
static void gen_c13(uint64_t seed, uint64_t run, const std::string& tier, Plan& p) {
  uint64_t rs = run_seed(seed, "C13", run);
  Gen g(rs, p);
  p.prop = "C13"; p.seed = seed; p.run = run; p.tier = tier;
  common_knobs(p, g, rs, CHK_WALK | CHK_LEDGER | CHK_ENVDEP);
  g.go.dup_keys = g.r.chance(1, 4); g.go.big_strings = g.r.chance(1, 3);
  p.knobs["flavours"] = 6;  // Simple + Sim: allocators that really free
  g.seed_docs((int)g.r.range(1, 4), 2);
  size_t n = (size_t)g.r.range(1, tier == "thorough" ? 50 : 32);   // random length = destruction at any point
  for (size_t i = 0; i < n; i++) {
    unsigned m = (unsigned)g.r.below(20);
    if (m < 11) g.mutation_op();
    else if (m < 13) { Op& op = g.add("Parse"); op.a.push_back(g.slot()); op.s.push_back(""); std::string t = g.text_valid(3, 8); if (g.r.chance(1, 3)) t = g.mutate(t); if (g.r.chance(1, 8)) t = g.nest_text(); op.s.push_back(t); if (g.r.chance(1, 20)) op.fault = g.r.chance(1, 2) ? FT_STRBUF_FAIL : FT_NODESTACK_FAIL; }
    else if (m < 14) { Op& op = g.add("ParseOnDemand"); op.a.push_back(g.slot()); op.s.push_back(""); std::string t = g.text_valid(3, 4); if (g.r.chance(1, 4)) t = g.mutate(t); op.s.push_back(t); op.s.push_back(g.pspec(3)); }
    else if (m < 16) { Op& op = g.add("ParseSchema"); op.a.push_back(g.slot()); op.s.push_back(""); std::string t = g.text_valid(3, 4); if (g.r.chance(1, 5)) t = g.mutate(t); op.s.push_back(t); if (g.r.chance(1, 15)) op.fault = g.r.chance(1, 2) ? FT_STRBUF_FAIL : FT_NODESTACK_FAIL; }
    else if (m < 17) { Op& op = g.add(g.r.chance(1, 2) ? "DocMove" : "DocMoveCtor"); op.a.push_back(g.slot()); op.a.push_back(g.slot()); }
    else if (m < 18) { Op& op = g.add("DocSwap"); op.a.push_back(g.slot()); op.a.push_back(g.slot()); }
    else if (m < 19) { Op& op = g.add("DocReset"); op.a.push_back(g.slot()); op.a.push_back(0); }
    else { Op& op = g.add("CopyFrom"); op.a.push_back(g.slot()); op.s.push_back(g.path()); op.a.push_back(g.slot()); op.s.push_back(g.path()); op.a.push_back((int64_t)g.r.below(2)); }
  }
}

// ---- C02: Parse total & memory-safe for every allocator kind, documents reused across parses
static void gen_c02(uint64_t seed, uint64_t run, const std::string& tier, Plan& p) {
  uint64_t rs = run_seed(seed, "C02", run);
  Gen g(rs, p);
  p.prop = "C02"; p.seed = seed; p.run = run; p.tier = tier;
  common_knobs(p, g, rs, CHK_WALK | CHK_LEDGER | CHK_ENVDEP);
  g.go.dup_keys = true; g.go.big_strings = g.r.chance(1, 2);
  p.knobs["flavours"] = g.r.chance(1, 3) ? (int64_t)(1 + g.r.below(7)) : 7;
  size_t n = (size_t)g.r.range(2, tier == "thorough" ? 24 : 14);
  std::string last;
  for (size_t i = 0; i < n; i++) {
    unsigned m = (unsigned)g.r.below(16);
    if (m < 10) {
      Op& op = g.add("Parse"); op.a.push_back(g.r.chance(2, 3) ? (int64_t)(g.r.below(2) * 3 + g.r.below(3)) : g.slot()); op.s.push_back("");
      std::string t;
      unsigned tm = (unsigned)g.r.below(12);
      if (g.r.chance(1, 1500)) {   // one string (or key) of 1..3 MiB with a few escapes: far beyond the default chunk capacity
        size_t len = (size_t)g.r.range(1 << 20, 3 << 20);
        std::string body(len, 'x');
        for (int q = 0; q < 6; q++) { size_t at = (size_t)g.r.below(len - 8); body.replace(at, 2, q % 2 ? "\\n" : "\\\""); }
        t = g.r.chance(1, 3) ? "{\"" + body + "\":1}" : "[\"" + body + "\",2]";
        if (g.r.chance(1, 4)) t.resize(t.size() - 3);   // truncated
      }
      else if (tm < 3) t = g.text_valid(4, 70);
      else if (tm < 6) t = g.mutate(g.text_valid(3, 8));
      else if (tm < 8) t = g.nest_text();
      else if (tm < 9 && !last.empty()) t = last.substr(0, g.r.below(last.size() + 1));
      else if (tm < 10) { t = g.text_valid(2, 2); t = g.mutate(g.mutate(t)); }
      else if (tm < 11) { size_t len = g.r.below(40); for (size_t j = 0; j < len; j++) t += (char)g.r.below(256); }
      else if (g.r.chance(1, 4)) {   // strings full of \\u escapes incl. surrogate pairs, lone/reversed surrogates, bad hex
        size_t cnt = (size_t)g.r.range(1, 5);
        t = g.r.chance(1, 2) ? "[" : "{\"k\":";
        bool obj = t[0] == '{';
        if (obj) t += "[";
        for (size_t q = 0; q < cnt; q++) {
          if (q) t += ',';
          t += '"';
          size_t pieces = (size_t)g.r.range(1, 12);
          for (size_t w = 0; w < pieces; w++) {
            char b[16];
            switch (g.r.below(8)) {
              case 0: snprintf(b, sizeof b, "\\ud%03x\\ud%03x", 0x800 + (unsigned)g.r.below(0x400), 0xc00 + (unsigned)g.r.below(0x400)); t += b; break;   // valid pair
              case 1: snprintf(b, sizeof b, "\\ud%03x", 0x800 + (unsigned)g.r.below(0x800)); t += b; break;                                                 // lone surrogate
              case 2: snprintf(b, sizeof b, "\\ud%03x\\ud%03x", 0xc00 + (unsigned)g.r.below(0x400), 0x800 + (unsigned)g.r.below(0x400)); t += b; break;   // reversed
              case 3: snprintf(b, sizeof b, "\\u%04x", (unsigned)g.r.below(0x10000)); t += b; break;
              case 4: snprintf(b, sizeof b, "\\u%03xg", (unsigned)g.r.below(0x1000)); t += b; break;                                                         // bad hex
              case 5: t += std::string((size_t)g.r.below(40), 'a' + (char)g.r.below(26)); break;
              case 6: { static const char* e[] = {"\\n", "\\\\", "\\\"", "\\/", "\\b", "\\t", "\\x", "\\"}; t += e[g.r.below(8)]; break; }
              default: t += "\xf0\x9f\x98\x80"; break;
            }
          }
          t += '"';
        }
        if (g.r.chance(5, 6)) t += obj ? "]}" : "]";
      }
      else if (g.r.chance(1, 3)) {   // numbers with very long mantissas and extreme exponents (slow float path)
        size_t cnt = (size_t)g.r.range(1, 3);
        t = "[";
        for (size_t q = 0; q < cnt; q++) {
          if (q) t += ',';
          if (g.r.chance(1, 3)) t += '-';
          size_t nd = (size_t)(g.r.chance(1, 2) ? g.r.range(18, 60) : g.r.range(300, 1300));
          bool lead0 = g.r.chance(1, 3);
          if (lead0) t += "0."; 
          for (size_t d = 0; d < nd; d++) { t += (char)('0' + ((d == 0 && !lead0) ? 1 + g.r.below(9) : (g.r.chance(1, 4) ? 0 : g.r.below(10)))); if (!lead0 && d + 1 < nd && g.r.chance(1, 200)) { t += '.'; lead0 = true; } }
          if (g.r.chance(3, 4)) { static const int ex[] = {-400, -340, -324, -310, -300, -30, -1, 0, 1, 30, 290, 300, 308, 309, 400}; t += 'e'; t += std::to_string(ex[g.r.below(15)] - (g.r.chance(1, 2) ? 0 : (int)nd)); }
        }
        if (g.r.chance(5, 6)) t += "]";
      }
      else if (g.r.chance(1, 12)) { size_t cnt = (size_t)g.r.range(9000, 14000); t = "["; for (size_t q = 0; q < cnt; q++) { if (q) t += ','; t += std::to_string(q * 7919 % 100000); } if (g.r.chance(3, 4)) t += "]"; }
      else { model::GenOpts go2 = g.go; go2.max_children = 30; go2.max_depth = 2; std::string big; model::WriteOpts wo; wo.ws_rng = &g.r; wo.ws_max = 3; model::write(model::gen_value(g.r, go2), big, wo); t = big; }
      last = t;
      op.s.push_back(t);
      if (g.r.chance(1, 15)) op.fault = g.r.chance(1, 2) ? FT_STRBUF_FAIL : FT_NODESTACK_FAIL;
    }
    else if (m < 11) { Op& op = g.add("ParseOnDemand"); op.a.push_back(g.slot()); op.s.push_back(""); std::string t = g.text_valid(3, 4); if (g.r.chance(1, 3)) t = g.mutate(t); op.s.push_back(t); op.s.push_back(g.pspec(3)); }
    else if (m < 13 && g.r.chance(1, 6)) { Op& op = g.add("PoolClearReparse"); op.a.push_back((int64_t)(g.r.below(2) * 3)); op.s.push_back(""); op.s.push_back(g.r.chance(1, 4) ? g.mutate(g.text_valid(2, 3)) : g.text_valid(3, 4)); }
    else if (m < 13 && g.r.chance(1, 5)) {   // a JSON text carried in a string member of a pool document, then parsed into that same document
      int64_t sl = (int64_t)(g.r.below(2) * 3); std::string pth = g.path();
      Op& st = g.add("SetStr"); st.a = {sl, 1}; st.s = {pth, g.r.chance(1, 4) ? g.mutate(g.text_valid(2, 3)) : g.text_valid(2, 3)};
      Op& ps = g.add("ParseSelf"); ps.a = {sl}; ps.s = {pth};
    }
    else if (m < 13) g.mutation_op();
    else if (m < 14) { Op& op = g.add("Serialize"); op.a.push_back(g.slot()); op.s.push_back(g.path()); op.a.push_back((int64_t)g.r.below(NWB)); }
    else if (m < 15) { Op& op = g.add(g.r.chance(1, 2) ? "DocMove" : "DocSwap"); op.a.push_back(g.slot()); op.a.push_back(g.slot()); }
    else { Op& op = g.add("DocReset"); op.a.push_back(g.slot()); op.a.push_back((int64_t)g.r.below(2)); }
  }
}

// ---- C06: serialisation validity / round trip / write-buffer states
static void gen_c06(uint64_t seed, uint64_t run, const std::string& tier, Plan& p) {
  uint64_t rs = run_seed(seed, "C06", run);
  Gen g(rs, p);
  p.prop = "C06"; p.seed = seed; p.run = run; p.tier = tier;
  common_knobs(p, g, rs, CHK_WALK | CHK_SER | CHK_ENVDEP | CHK_PARSEVAL | CHK_PARSEFAIL);
  g.go.dup_keys = g.r.chance(1, 3); g.go.big_strings = true; g.go.max_str = (int)g.r.range(4, 40);
  g.go.nonfinite = g.r.chance(1, 6);
  p.knobs["tight_growth"] = g.huge ? 0 : (int64_t)g.r.chance(1, 2);
  p.knobs["flavours"] = 7;
  size_t n = (size_t)g.r.range(3, tier == "thorough" ? 40 : 24);
  for (size_t i = 0; i < n; i++) {
    unsigned m = (unsigned)g.r.below(20);
    if (m < 3) { Op& op = g.add("WbNew"); static const int64_t caps[] = {-1, 0, 1, 2, 7, 8, 9, 15, 16, 17, 31, 63, 64, 65, 255, 256, 257, 1000}; op.a.push_back((int64_t)g.r.below(NWB)); op.a.push_back(caps[g.r.below(sizeof(caps) / sizeof(caps[0]))]); }
    else if (m < 4) {
      unsigned w = (unsigned)g.r.below(3);
      if (w == 0) { Op& op = g.add("WbMove"); op.a.push_back((int64_t)g.r.below(NWB)); op.a.push_back((int64_t)g.r.below(NWB)); }
      else if (w == 1) { Op& op = g.add("WbReserve"); op.a.push_back((int64_t)g.r.below(NWB)); op.a.push_back((int64_t)g.r.below(3000)); }
      else { Op& op = g.add("WbUse"); op.a = {(int64_t)g.r.below(NWB), (int64_t)g.r.below(200), (int64_t)g.r.below(2), (int64_t)g.r.below(2)}; }
    }
    else if (m < 7) {
      Op& op = g.add("Build"); op.a.push_back(g.slot()); op.s.push_back(g.r.chance(2, 3) ? "" : g.path()); op.a.push_back((int64_t)g.r.below(3));
      if (g.r.chance(1, 8)) {   // directly nested non-empty containers, 5..280 deep (serializer keeps an explicit parent stack)
        size_t depth = (size_t)(g.r.chance(1, 2) ? g.r.range(5, 40) : g.r.range(40, 280));
        bool objs = g.r.chance(1, 4);
        JVal v = model::gen_scalar(g.r, g.go);
        for (size_t d = 0; d < depth; d++) { JVal w; if (objs && g.r.chance(1, 2)) { w = JVal::obj(); w.o.emplace_back("k", std::move(v)); } else { w = JVal::arr(); w.a.push_back(std::move(v)); if (g.r.chance(1, 10)) w.a.push_back(JVal::null()); } v = std::move(w); }
        op.s.push_back(model::canon(v));
      } else op.s.push_back(g.val((int)g.r.range(0, 4)));
    }
    else if (m < 9) { Op& op = g.add("Parse"); op.a.push_back(g.slot()); op.s.push_back(""); model::GenOpts go2 = g.go; go2.nonfinite = false; go2.max_depth = (int)g.r.range(0, 4); std::string t; model::WriteOpts wo; wo.ws_rng = &g.r; wo.ws_max = 4; wo.escape_more = g.r.chance(1, 2); model::write(model::gen_value(g.r, go2), t, wo); op.s.push_back(t); }
    else if (m < 12) g.mutation_op();
    else if (m < 18) { Op& op = g.add("Serialize"); op.a.push_back(g.slot()); op.s.push_back(g.r.chance(2, 3) ? "" : g.path()); op.a.push_back((int64_t)g.r.below(NWB)); }
    else { Op& op = g.add("Dump"); op.a.push_back(g.slot()); op.s.push_back(g.r.chance(2, 3) ? "" : g.path()); }
  }
}

// ---- C18: equality is JSON value equality (different histories / allocators / orders)
static JVal permute(const JVal& v, Rng& r) {
  JVal o = v;
  for (auto& x : o.a) x = permute(x, r);
  for (auto& kv : o.o) kv.second = permute(kv.second, r);
  for (size_t i = o.o.size(); i > 1; i--) std::swap(o.o[i - 1], o.o[r.below(i)]);
  return o;
}
static bool near_miss(JVal& v, Rng& r, const model::GenOpts& go) {
  // change exactly one thing somewhere
  if (v.k == JVal::Arr && !v.a.empty() && r.chance(3, 4)) return near_miss(v.a[r.below(v.a.size())], r, go);
  if (v.k == JVal::Obj && !v.o.empty() && r.chance(3, 4)) {
    size_t i = r.below(v.o.size());
    if (r.chance(1, 4)) { std::string k = v.o[i].first; if (k.empty()) k = "x"; else k[k.size() - 1] ^= 2; if (v.find(k) >= 0) return false; v.o[i].first = k; return true; }
    return near_miss(v.o[i].second, r, go);
  }
  switch (v.k) {
    case JVal::Uint: if (r.chance(1, 2)) { v = JVal::real((double)v.u); } else v.u ^= 1; return true;
    case JVal::Sint: v.i ^= 1; if (v.i >= 0) v = JVal::uint((uint64_t)v.i); return true;
    case JVal::Real: if (v.u == 0) v.u = 0x8000000000000000ull; else if (v.u == 0x8000000000000000ull) v.u = 0; else v.u ^= 1; if (((v.u >> 52) & 0x7ff) == 0x7ff) v.u ^= (1ull << 52); return true;
    case JVal::Str: if (v.s.empty() || r.chance(1, 3)) v.s += 'x'; else if (r.chance(1, 2)) v.s.pop_back(); else v.s[r.below(v.s.size())] ^= 1; return true;
    case JVal::Null: v = JVal::boolean(false); return true;
    case JVal::True: v = JVal::boolean(false); return true;
    case JVal::False: v = r.chance(1, 2) ? JVal::null() : JVal::boolean(true); return true;
    case JVal::Arr: if (r.chance(1, 2)) v.a.push_back(JVal::null()); else v = JVal::obj(); return true;
    case JVal::Obj: if (r.chance(1, 2)) { if (v.find("zq") >= 0) return false; v.o.emplace_back("zq", JVal::null()); } else v = JVal::arr(); return true;
  }
  return false;
}
static void gen_c18(uint64_t seed, uint64_t run, const std::string& tier, Plan& p) {
  uint64_t rs = run_seed(seed, "C18", run);
  Gen g(rs, p);
  p.prop = "C18"; p.seed = seed; p.run = run; p.tier = tier;
  common_knobs(p, g, rs, CHK_WALK | CHK_EQ | CHK_ENVDEP | CHK_PARSEVAL | CHK_PARSEFAIL);
  g.go.dup_keys = false; g.go.big_strings = g.r.chance(1, 2); g.go.key_alphabet = (int)g.r.range(3, 10);
  p.knobs["flavours"] = 7;
  model::GenOpts go2 = g.go; go2.max_depth = (int)g.r.range(1, 4);
  JVal base = model::gen_value(g.r, go2);
  if (!base.is_container() && g.r.chance(2, 3)) { JVal w = JVal::obj(); w.o.emplace_back("a", base); w.o.emplace_back("b", model::gen_value(g.r, go2)); w.o.emplace_back("c", model::gen_value(g.r, go2)); base = w; }
  // six slots: related values through different histories
  for (int sl = 0; sl < NSLOT; sl++) {
    JVal v = base;
    unsigned how = (unsigned)g.r.below(6);
    if (how == 1 || how == 2) v = permute(base, g.r);
    if (how == 3 || how == 4) { JVal t = base; if (near_miss(t, g.r, go2)) v = t; }
    if (how == 5) v = model::gen_value(g.r, go2);
    unsigned via = (unsigned)g.r.below(4);
    if (via == 0 && !v.nonfinite_deep()) { Op& op = g.add("Parse"); op.a.push_back(sl); op.s.push_back(""); std::string t; model::WriteOpts wo; wo.ws_rng = &g.r; wo.ws_max = 3; wo.escape_more = g.r.chance(1, 2); model::write(v, t, wo); op.s.push_back(t); }
    else {
      if (via == 2) {  // overwrite history: stale payloads / ownership kinds
        Op& o1 = g.add("Build"); o1.a.push_back(sl); o1.s.push_back(""); o1.a.push_back(0); o1.s.push_back(g.val(2));
        if (g.r.chance(1, 2)) { Op& o2 = g.add("SetStr"); o2.a.push_back(sl); o2.s.push_back(""); o2.a.push_back((int64_t)g.r.below(2)); o2.s.push_back(model::gen_string(g.r, g.go)); }
        if (g.r.chance(1, 2)) { Op& o2 = g.add("SetDouble"); o2.a.push_back(sl); o2.s.push_back(""); o2.a.push_back((int64_t)model::gen_double_bits(g.r, false)); }
      }
      Op& op = g.add("Build"); op.a.push_back(sl); op.s.push_back(""); op.a.push_back((int64_t)g.r.below(3)); op.s.push_back(model::canon(v));
    }
    if (g.r.chance(1, 3)) { Op& op = g.add("CreateMap"); op.a.push_back(sl); op.s.push_back(g.path()); }
    if (g.r.chance(1, 4)) { Op& op = g.add(g.r.chance(1, 2) ? "MemberReserve" : "Reserve"); op.a.push_back(sl); op.s.push_back(g.path()); op.a.push_back((int64_t)g.r.below(40)); }
  }
  size_t n = (size_t)g.r.range(4, tier == "thorough" ? 40 : 24);
  for (size_t i = 0; i < n; i++) {
    unsigned m = (unsigned)g.r.below(12);
    if (m < 8) { Op& op = g.add("Eq"); op.a.push_back(g.slot()); std::string pa = g.r.chance(1, 2) ? "" : g.path(); op.s.push_back(pa); op.a.push_back(g.slot()); op.s.push_back(g.r.chance(2, 3) ? pa : g.path()); }
    else if (m < 9) { Op& op = g.add("CopyFrom"); op.a.push_back(g.slot()); op.s.push_back(""); op.a.push_back(g.slot()); op.s.push_back(""); op.a.push_back((int64_t)g.r.below(2)); }
    else if (m < 10) { Op& op = g.add("Serialize"); op.a.push_back(g.slot()); op.s.push_back(""); op.a.push_back(0); }
    else if (m == 11 && g.r.chance(1, 2)) {
      // a scalar written over a node that held a string / container a moment ago: == must not depend on that history
      int sl = g.slot(); std::string pa = g.path();
      if (pa.empty() && !g.r.chance(1, 6)) { pa += (char)g.r.below(256); }
      if (g.r.chance(1, 2)) { Op& o1 = g.add("Build"); o1.a.push_back(sl); o1.s.push_back(pa); o1.a.push_back((int64_t)g.r.below(3)); o1.s.push_back(g.val(2)); }
      else { Op& o1 = g.add("SetStr"); o1.a.push_back(sl); o1.s.push_back(pa); o1.a.push_back((int64_t)g.r.below(2)); o1.s.push_back(model::gen_string(g.r, g.go)); }
      static const char* sk[] = {"SetInt", "SetInt", "SetUint", "SetDouble", "SetBool", "SetNull"};
      std::string kn = sk[g.r.below(6)];
      Op& o2 = g.add(kn.c_str()); o2.a.push_back(sl); o2.s.push_back(pa);
      if (kn == "SetInt") o2.a.push_back(g.r.chance(1, 2) ? g.r.range(-1000, 1000) : (int64_t)g.r.next());
      else if (kn == "SetUint") o2.a.push_back((int64_t)(g.r.chance(1, 2) ? g.r.below(100) : g.r.next()));
      else if (kn == "SetDouble") o2.a.push_back((int64_t)model::gen_double_bits(g.r, false));
      else if (kn == "SetBool") o2.a.push_back((int64_t)g.r.below(2));
      Op& o3 = g.add("Eq"); o3.a.push_back(sl); o3.s.push_back(pa); o3.a.push_back(g.slot()); o3.s.push_back(g.r.chance(1, 2) ? pa : g.path());
    }
    else g.mutation_op();
  }
}

// ---- C19: ParseSchema merge
static void gen_c19(uint64_t seed, uint64_t run, const std::string& tier, Plan& p) {
  uint64_t rs = run_seed(seed, "C19", run);
  Gen g(rs, p);
  p.prop = "C19"; p.seed = seed; p.run = run; p.tier = tier;
  common_knobs(p, g, rs, CHK_WALK | CHK_SCHEMA | CHK_ENVDEP | CHK_PARSEFAIL);
  g.go.dup_keys = false; g.go.key_alphabet = (int)g.r.range(2, 5); g.go.wild_strings = g.r.chance(1, 2); g.go.max_children = 4;
  p.knobs["flavours"] = g.r.chance(1, 2) ? 7 : (int64_t)(1 + g.r.below(7));
  model::GenOpts go2 = g.go; go2.max_depth = (int)g.r.range(1, 4);
  size_t docs = (size_t)g.r.range(1, 3);
  if (g.r.chance(1, 40)) {   // wide: an object of 60..300 declared members, the text supplies (almost) all of them, in declaration order or shuffled
    int64_t sl = g.slot();
    size_t n = (size_t)(g.r.chance(1, 2) ? g.r.range(60, 70) : g.r.range(100, 300));
    JVal e = JVal::obj(), t = JVal::obj();
    for (size_t i = 0; i < n; i++) { std::string k = "m" + std::to_string(i); e.o.emplace_back(k, JVal::uint(0)); if (!g.r.chance(1, 40)) t.o.emplace_back(k, JVal::uint(i + 1)); }
    if (g.r.chance(1, 3)) for (size_t i = t.o.size(); i > 1; i--) std::swap(t.o[i - 1], t.o[g.r.below(i)]);
    if (g.r.chance(1, 3)) t.o.insert(t.o.begin() + (long)g.r.below(t.o.size() + 1), {"undeclared", JVal::str("x")});
    { Op& op = g.add("Build"); op.a.push_back(sl); op.s.push_back(""); op.a.push_back((int64_t)g.r.below(3)); op.s.push_back(model::canon(e)); }
    if (g.r.chance(1, 3)) { Op& op = g.add("CreateMap"); op.a.push_back(sl); op.s.push_back(""); }
    { Op& op = g.add("ParseSchema"); op.a.push_back(sl); op.s.push_back(""); op.s.push_back(model::write(t)); }
    docs = 0;
  }
  else if (g.r.chance(1, 300)) {   // deep: the same chain of 200..700 nested non-empty objects on both sides, declared keys AFTER the deep member at outer levels
    int64_t sl = g.slot();
    size_t depth = (size_t)g.r.range(200, 700), every = (size_t)g.r.range(1, 60);
    JVal e = JVal::obj(), t = JVal::obj();
    e.o.emplace_back("x", JVal::uint(1)); t.o.emplace_back("x", JVal::uint(2));
    for (size_t lv = 0; lv < depth; lv++) {
      JVal ne = JVal::obj(), nt = JVal::obj();
      ne.o.emplace_back("a", std::move(e)); nt.o.emplace_back("a", std::move(t));
      if (lv % every == 0) { ne.o.emplace_back("z", JVal::uint(0)); nt.o.emplace_back("z", JVal::uint(lv + 1)); }
      e = std::move(ne); t = std::move(nt);
    }
    { Op& op = g.add("Parse"); op.a.push_back(sl); op.s.push_back(""); op.s.push_back(model::write(e)); }
    { Op& op = g.add("ParseSchema"); op.a.push_back(sl); op.s.push_back(""); op.s.push_back(model::write(t)); }
    docs = 0;
  }
  for (size_t d = 0; d < docs; d++) {
    int64_t sl = g.slot();
    JVal e = model::gen_value(g.r, go2);
    if (!e.is_container() && g.r.chance(3, 4)) { JVal w = JVal::obj(); w.o.emplace_back("a", e); w.o.emplace_back("b", model::gen_value(g.r, go2, 1)); e = w; }
    if (g.r.chance(1, 2)) { Op& op = g.add("Build"); op.a.push_back(sl); op.s.push_back(""); op.a.push_back((int64_t)g.r.below(3)); op.s.push_back(model::canon(e)); }
    else { Op& op = g.add("Parse"); op.a.push_back(sl); op.s.push_back(""); std::string t; model::WriteOpts wo; wo.ws_rng = &g.r; wo.ws_max = 2; model::write(e, t, wo); op.s.push_back(t); }
    if (g.r.chance(1, 4)) { Op& op = g.add("CreateMap"); op.a.push_back(sl); op.s.push_back(g.path()); }
    size_t reps = (size_t)g.r.range(1, 3);
    for (size_t k = 0; k < reps; k++) {
      // text related to the existing value: permuted / mutated copy, or fresh
      JVal t = e;
      unsigned how = (unsigned)g.r.below(5);
      bool compact = false;
      if (how == 0 && g.r.chance(1, 3)) {   // a text with the most nodes per byte, as the whole text or as the value of a declared key
        compact = g.r.chance(2, 3);
        JVal dv = model::gen_dense_value(g.r);
        if (t.k == JVal::Obj && !t.o.empty() && g.r.chance(1, 2)) t.o[g.r.below(t.o.size())].second = dv; else t = dv;
      }
      else if (how == 0) t = model::gen_value(g.r, go2);
      else { size_t muts = (size_t)g.r.range(1, 4); for (size_t q = 0; q < muts; q++) { JVal c = t; if (near_miss(c, g.r, go2)) t = c; } if (g.r.chance(1, 2)) t = permute(t, g.r); }
      if (t.k == JVal::Obj && g.r.chance(1, 2)) { std::string nk = model::gen_key(g.r, go2); if (t.find(nk) < 0) t.o.insert(t.o.begin() + (long)g.r.below(t.o.size() + 1), {nk, model::gen_value(g.r, go2, 1)}); }
      if (t.nonfinite_deep()) continue;
      std::string txt; model::WriteOpts wo; wo.ws_rng = &g.r; wo.ws_max = compact ? 0 : 3; wo.escape_more = !compact && g.r.chance(1, 3);
      model::write(t, txt, wo);
      Op& op = g.add("ParseSchema"); op.a.push_back(sl); op.s.push_back(""); op.s.push_back(txt);
      if (g.r.chance(1, 25)) op.fault = g.r.chance(1, 2) ? FT_STRBUF_FAIL : FT_NODESTACK_FAIL;
      if (g.r.chance(1, 3)) { Op& o2 = g.add("Serialize"); o2.a.push_back(sl); o2.s.push_back(""); o2.a.push_back(0); }
      if (g.r.chance(1, 4)) g.mutation_op();
    }
    if (g.r.chance(1, 5)) {   // reclaim the pool and start over with this document (skipped unless it owns a pool)
      Op& op = g.add("PoolClearReparse"); op.a.push_back(sl); op.s.push_back(""); op.s.push_back(model::write(model::gen_value(g.r, go2)));
      if (g.r.chance(1, 2)) { Op& o2 = g.add("ParseSchema"); o2.a.push_back(sl); o2.s.push_back(""); o2.s.push_back(model::write(model::gen_value(g.r, go2))); }
    }
  }
}

static const Profile kC12 = {"C12", gen_c12, exec_dom,
  "a run = one plan (3..60 DOM mutation ops on up to 6 document slots of 3 allocator flavours, no Parse) executed under 2 memory environments; non-trivial = >=1 op executed and >=1 SimMem allocation decision fired; distinct = hash(op kinds+faults, outcome vector)"};
static const Profile kC13 = {"C13", gen_c13, exec_dom,
  "a run = one plan (mutation ops + Parse/ParseOnDemand/ParseSchema on valid and invalid text + document move/swap/reset + CopyFrom, random length = destruction at an arbitrary point) on freeing allocators, ledger checked at every op and at quiescence; non-trivial/distinct as for C12"};
static const Profile kC02 = {"C02", gen_c02, exec_dom,
  "a run = one plan of Parse calls (valid, truncated, mutated, random bytes, deep/uneven nesting) on fresh and reused documents of 3 allocator flavours interleaved with reuse ops, under 2 memory environments; non-trivial/distinct as for C12"};
static const Profile kC06 = {"C06", gen_c06, exec_dom,
  "a run = one plan building documents (API, Parse, mutation history) and serialising them into write buffers of varied starting state, optionally with tight growth; non-trivial/distinct as for C12"};
static const Profile kC18 = {"C18", gen_c18, exec_dom,
  "a run = six related documents (same value / permuted / near miss / unrelated) built through different histories and allocator flavours, then pairwise == checks against model equality; non-trivial/distinct as for C12"};
static const Profile kC19 = {"C19", gen_c19, exec_dom,
  "a run = existing documents (built or parsed) receiving 1..3 ParseSchema applications of related texts; result checked against the statement-derived merge relation; non-trivial/distinct as for C12"};
static ProfileReg r12(&kC12), r13(&kC13), r02(&kC02), r06(&kC06), r18(&kC18), r19(&kC19);

}  // namespace
