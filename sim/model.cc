#include "model.h"
#include <algorithm>

#include <cerrno>
#include <cmath>
#include <cstdio>
#include <cstdlib>
#include <cstring>

namespace model {

JVal JVal::real(double d) { JVal v; v.k = Real; memcpy(&v.u, &d, 8); return v; }
double JVal::dbl() const { double d; memcpy(&d, &u, 8); return d; }
size_t JVal::count_nodes() const {
  size_t n = 1;
  for (auto& x : a) n += x.count_nodes();
  for (auto& kv : o) n += 1 + kv.second.count_nodes();
  return n;
}
int JVal::find(const std::string& key) const {
  for (size_t i = 0; i < o.size(); i++) if (o[i].first == key) return (int)i;
  return -1;
}
int JVal::count_key(const std::string& key) const {
  int c = 0;
  for (auto& kv : o) if (kv.first == key) c++;
  return c;
}
bool JVal::has_dup_keys() const {
  if (o.size() > 48) {   // large objects: sort instead of comparing all pairs
    std::vector<const std::string*> ks; ks.reserve(o.size());
    for (auto& kv : o) ks.push_back(&kv.first);
    std::sort(ks.begin(), ks.end(), [](const std::string* a, const std::string* b) { return *a < *b; });
    for (size_t i = 1; i < ks.size(); i++) if (*ks[i - 1] == *ks[i]) return true;
    return false;
  }
  for (size_t i = 0; i < o.size(); i++)
    for (size_t j = i + 1; j < o.size(); j++) if (o[i].first == o[j].first) return true;
  return false;
}
bool JVal::has_dup_keys_deep() const {
  if (k == Obj) { if (has_dup_keys()) return true; for (auto& kv : o) if (kv.second.has_dup_keys_deep()) return true; }
  if (k == Arr) for (auto& x : a) if (x.has_dup_keys_deep()) return true;
  return false;
}
void JVal::clear_maps() {
  has_map = false;
  for (auto& x : a) x.clear_maps();
  for (auto& kv : o) kv.second.clear_maps();
}
size_t JVal::max_object_size() const {
  size_t m = k == Obj ? o.size() : 0;
  for (auto& x : a) { size_t c = x.max_object_size(); if (c > m) m = c; }
  for (auto& kv : o) { size_t c = kv.second.max_object_size(); if (c > m) m = c; }
  return m;
}
bool JVal::nonfinite_deep() const {
  if (k == Real) { return ((u >> 52) & 0x7ff) == 0x7ff; }
  for (auto& x : a) if (x.nonfinite_deep()) return true;
  for (auto& kv : o) if (kv.second.nonfinite_deep()) return true;
  return false;
}

bool equal_struct(const JVal& a, const JVal& b) {
  if (a.k != b.k) return false;
  switch (a.k) {
    case JVal::Uint: case JVal::Real: return a.u == b.u;
    case JVal::Sint: return a.i == b.i;
    case JVal::Str: return a.s == b.s;
    case JVal::Arr:
      if (a.a.size() != b.a.size()) return false;
      for (size_t i = 0; i < a.a.size(); i++) if (!equal_struct(a.a[i], b.a[i])) return false;
      return true;
    case JVal::Obj:
      if (a.o.size() != b.o.size()) return false;
      for (size_t i = 0; i < a.o.size(); i++)
        if (a.o[i].first != b.o[i].first || !equal_struct(a.o[i].second, b.o[i].second)) return false;
      return true;
    default: return true;
  }
}
bool equal_value(const JVal& a, const JVal& b) {
  if (a.k != b.k) return false;
  switch (a.k) {
    case JVal::Uint: case JVal::Real: return a.u == b.u;
    case JVal::Sint: return a.i == b.i;
    case JVal::Str: return a.s == b.s;
    case JVal::Arr:
      if (a.a.size() != b.a.size()) return false;
      for (size_t i = 0; i < a.a.size(); i++) if (!equal_value(a.a[i], b.a[i])) return false;
      return true;
    case JVal::Obj:
      if (a.o.size() != b.o.size()) return false;
      if (a.o.size() > 48) {   // large objects: index b's FIRST occurrence of every key
        std::vector<std::pair<const std::string*, size_t>> idx; idx.reserve(b.o.size());
        for (size_t j = 0; j < b.o.size(); j++) idx.emplace_back(&b.o[j].first, j);
        std::stable_sort(idx.begin(), idx.end(), [](const std::pair<const std::string*, size_t>& x, const std::pair<const std::string*, size_t>& y) { return *x.first < *y.first; });
        for (auto& kv : a.o) {
          auto it = std::lower_bound(idx.begin(), idx.end(), kv.first, [](const std::pair<const std::string*, size_t>& x, const std::string& key) { return *x.first < key; });
          if (it == idx.end() || *it->first != kv.first || !equal_value(kv.second, b.o[it->second].second)) return false;
        }
        return true;
      }
      for (auto& kv : a.o) {
        int j = b.find(kv.first);
        if (j < 0 || !equal_value(kv.second, b.o[j].second)) return false;
      }
      return true;
    default: return true;
  }
}

static void canon_str(const std::string& s, std::string& out) {
  out += 's'; put_u64(out, s.size()); out += ':'; out += s;
}
void canon(const JVal& v, std::string& out) {
  switch (v.k) {
    case JVal::Null: out += 'n'; break;
    case JVal::False: out += 'f'; break;
    case JVal::True: out += 't'; break;
    case JVal::Uint: out += 'u'; put_u64(out, v.u); break;
    case JVal::Sint: out += 'i'; put_i64(out, v.i); break;
    case JVal::Real: out += 'd'; put_hex16(out, v.u); break;
    case JVal::Str: canon_str(v.s, out); break;
    case JVal::Arr:
      out += '[';
      for (size_t i = 0; i < v.a.size(); i++) { if (i) out += ','; canon(v.a[i], out); }
      out += ']';
      break;
    case JVal::Obj:
      out += '{';
      for (size_t i = 0; i < v.o.size(); i++) { if (i) out += ','; canon_str(v.o[i].first, out); out += '='; canon(v.o[i].second, out); }
      out += '}';
      break;
  }
}
std::string canon(const JVal& v) { std::string s; canon(v, s); return s; }

// ------------------------------------------------------------------ parser
namespace {
struct P {
  const unsigned char* p; size_t n; size_t i = 0;
  size_t err = 0; bool in_str = false; bool inf = false; bool failed = false;
  int depth = 0;
  bool fail(size_t at, bool instr = false) { if (!failed) { failed = true; err = at; in_str = instr; } return false; }
  void ws() { while (i < n && (p[i] == ' ' || p[i] == '\t' || p[i] == '\n' || p[i] == '\r')) i++; }
  static int hexv(unsigned char c) {
    if (c >= '0' && c <= '9') return c - '0';
    if (c >= 'a' && c <= 'f') return c - 'a' + 10;
    if (c >= 'A' && c <= 'F') return c - 'A' + 10;
    return -1;
  }
  bool hex4(unsigned& out) {
    if (i + 4 > n) return fail(n, true);
    unsigned v = 0;
    for (int k = 0; k < 4; k++) { int h = hexv(p[i + k]); if (h < 0) return fail(i + k, true); v = v * 16 + h; }
    i += 4; out = v; return true;
  }
  static void utf8(unsigned cp, std::string& s) {
    if (cp < 0x80) s += (char)cp;
    else if (cp < 0x800) { s += (char)(0xC0 | (cp >> 6)); s += (char)(0x80 | (cp & 0x3F)); }
    else if (cp < 0x10000) { s += (char)(0xE0 | (cp >> 12)); s += (char)(0x80 | ((cp >> 6) & 0x3F)); s += (char)(0x80 | (cp & 0x3F)); }
    else { s += (char)(0xF0 | (cp >> 18)); s += (char)(0x80 | ((cp >> 12) & 0x3F)); s += (char)(0x80 | ((cp >> 6) & 0x3F)); s += (char)(0x80 | (cp & 0x3F)); }
  }
  bool str(std::string& s) {  // p[i] == '"'
    i++;
    for (;;) {
      if (i >= n) return fail(n, true);
      unsigned char c = p[i];
      if (c == '"') { i++; return true; }
      if (c < 0x20) return fail(i, true);
      if (c != '\\') { s += (char)c; i++; continue; }
      size_t bs = i;
      i++;
      if (i >= n) return fail(n, true);
      c = p[i++];
      switch (c) {
        case '"': s += '"'; break; case '\\': s += '\\'; break; case '/': s += '/'; break;
        case 'b': s += '\b'; break; case 'f': s += '\f'; break; case 'n': s += '\n'; break;
        case 'r': s += '\r'; break; case 't': s += '\t'; break;
        case 'u': {
          unsigned cp;
          if (!hex4(cp)) return false;
          if (cp >= 0xDC00 && cp <= 0xDFFF) return fail(bs, true);
          if (cp >= 0xD800 && cp <= 0xDBFF) {
            if (i + 2 > n || p[i] != '\\' || p[i + 1] != 'u') return fail(i < n ? i : n, true);
            i += 2;
            unsigned lo;
            if (!hex4(lo)) return false;
            if (lo < 0xDC00 || lo > 0xDFFF) return fail(i - 4, true);
            cp = 0x10000 + ((cp - 0xD800) << 10) + (lo - 0xDC00);
          }
          utf8(cp, s);
          break;
        }
        default: return fail(i - 1, true);
      }
    }
  }
  bool num(JVal& v) {
    size_t st = i;
    bool neg = false;
    if (p[i] == '-') { neg = true; i++; }
    if (i >= n) return fail(n);
    if (p[i] == '0') i++;
    else if (p[i] >= '1' && p[i] <= '9') { while (i < n && p[i] >= '0' && p[i] <= '9') i++; }
    else return fail(i);
    bool isint = true;
    if (i < n && p[i] == '.') {
      isint = false; i++;
      if (i >= n) return fail(n);
      if (!(p[i] >= '0' && p[i] <= '9')) return fail(i);
      while (i < n && p[i] >= '0' && p[i] <= '9') i++;
    }
    if (i < n && (p[i] == 'e' || p[i] == 'E')) {
      isint = false; i++;
      if (i < n && (p[i] == '+' || p[i] == '-')) i++;
      if (i >= n) return fail(n);
      if (!(p[i] >= '0' && p[i] <= '9')) return fail(i);
      while (i < n && p[i] >= '0' && p[i] <= '9') i++;
    }
    std::string t((const char*)p + st, i - st);
    if (isint) {
      const char* d = t.c_str() + (neg ? 1 : 0);
      size_t nd = strlen(d);
      // value fits?
      bool fits = false; unsigned long long u = 0;
      if (nd <= 20) {
        errno = 0; char* e; u = strtoull(d, &e, 10);
        fits = (errno == 0);
      }
      if (fits && !neg) { v = JVal::uint(u); return true; }
      if (fits && neg && u <= (1ull << 63)) { v = u == 0 ? JVal::uint(0) : (JVal::sint((int64_t)(0 - u))); if (u == (1ull << 63)) { v.k = JVal::Sint; v.i = INT64_MIN; } return true; }
    }
    errno = 0;
    double dv = strtod(t.c_str(), nullptr);
    if (std::isinf(dv)) { inf = true; return fail(st); }
    v = JVal::real(dv);
    return true;
  }
  bool lit(const char* w, size_t at) {
    size_t L = strlen(w);
    for (size_t k = 0; k < L; k++) { if (at + k >= n) return fail(n); if (p[at + k] != (unsigned char)w[k]) return fail(at + k); }
    i = at + L; return true;
  }
  bool val(JVal& v) {
    ws();
    if (i >= n) return fail(n);
    unsigned char c = p[i];
    if (c == '{') {
      v = JVal::obj(); i++; ws();
      if (i < n && p[i] == '}') { i++; return true; }
      for (;;) {
        ws();
        if (i >= n) return fail(n);
        if (p[i] != '"') return fail(i);
        std::string k;
        if (!str(k)) return false;
        ws();
        if (i >= n) return fail(n);
        if (p[i] != ':') return fail(i);
        i++;
        JVal x;
        if (++depth > 100000) return fail(i);
        if (!val(x)) return false;
        depth--;
        v.o.emplace_back(std::move(k), std::move(x));
        ws();
        if (i >= n) return fail(n);
        if (p[i] == ',') { i++; continue; }
        if (p[i] == '}') { i++; return true; }
        return fail(i);
      }
    }
    if (c == '[') {
      v = JVal::arr(); i++; ws();
      if (i < n && p[i] == ']') { i++; return true; }
      for (;;) {
        JVal x;
        if (!val(x)) return false;
        v.a.push_back(std::move(x));
        ws();
        if (i >= n) return fail(n);
        if (p[i] == ',') { i++; continue; }
        if (p[i] == ']') { i++; return true; }
        return fail(i);
      }
    }
    if (c == '"') { v = JVal::str(""); return str(v.s); }
    if (c == 't') { v = JVal::boolean(true); return lit("true", i); }
    if (c == 'f') { v = JVal::boolean(false); return lit("false", i); }
    if (c == 'n') { v = JVal::null(); return lit("null", i); }
    if (c == '-' || (c >= '0' && c <= '9')) return num(v);
    return fail(i);
  }
};
}  // namespace

ParseOut parse(const char* s, size_t n) {
  P p{(const unsigned char*)s, n};
  ParseOut o;
  bool ok = p.val(o.v);
  if (ok) { p.ws(); if (p.i != n) { ok = false; p.fail(p.i); } }
  o.ok = ok;
  if (!ok) { o.err_pos = p.err; o.err_in_string = p.in_str; o.err_infinity = p.inf; o.v = JVal(); }
  return o;
}
ParseOut parse(const std::string& t) { return parse(t.data(), t.size()); }

// ------------------------------------------------------------------ writer
static bool utf8_decode(const std::string& s, size_t i, unsigned& cp, size_t& len) {
  unsigned char c = (unsigned char)s[i];
  auto cont = [&](size_t k) { return i + k < s.size() && (((unsigned char)s[i + k]) & 0xC0) == 0x80; };
  if (c >= 0xC2 && c <= 0xDF && cont(1)) { cp = ((c & 0x1Fu) << 6) | ((unsigned char)s[i + 1] & 0x3Fu); len = 2; return true; }
  if (c >= 0xE0 && c <= 0xEF && cont(1) && cont(2)) { cp = ((c & 0x0Fu) << 12) | (((unsigned char)s[i + 1] & 0x3Fu) << 6) | ((unsigned char)s[i + 2] & 0x3Fu); len = 3; return cp >= 0x800 && !(cp >= 0xD800 && cp <= 0xDFFF); }
  if (c >= 0xF0 && c <= 0xF4 && cont(1) && cont(2) && cont(3)) { cp = ((c & 0x07u) << 18) | (((unsigned char)s[i + 1] & 0x3Fu) << 12) | (((unsigned char)s[i + 2] & 0x3Fu) << 6) | ((unsigned char)s[i + 3] & 0x3Fu); len = 4; return cp >= 0x10000 && cp <= 0x10FFFF; }
  return false;
}
void write_string(const std::string& s, std::string& out, sim::Rng* r) {
  out += '"';
  for (size_t idx = 0; idx < s.size(); idx++) {
    unsigned char c = (unsigned char)s[idx];
    if (r && c >= 0xC2) {   // a well-formed multi-byte character may be spelled \uXXXX or as a surrogate pair
      unsigned cp; size_t len;
      if (utf8_decode(s, idx, cp, len) && r->chance(1, 2)) {
        char b[16];
        if (cp < 0x10000) snprintf(b, sizeof b, r->chance(1, 2) ? "\\u%04x" : "\\u%04X", cp);
        else { unsigned v = cp - 0x10000; snprintf(b, sizeof b, "\\u%04x\\u%04X", 0xD800 + (v >> 10), 0xDC00 + (v & 0x3FF)); }
        out += b; idx += len - 1; continue;
      }
    }
    if (r && c < 0x80 && r->chance(1, 12)) { char b[8]; snprintf(b, sizeof b, "\\u%04x", c); out += b; continue; }
    switch (c) {
      case '"': out += "\\\""; break;
      case '\\': out += "\\\\"; break;
      case '\b': out += "\\b"; break; case '\f': out += "\\f"; break; case '\n': out += "\\n"; break;
      case '\r': out += "\\r"; break; case '\t': out += "\\t"; break;
      case '/': if (r && r->chance(1, 2)) out += "\\/"; else out += '/'; break;
      default:
        if (c < 0x20) { char b[8]; snprintf(b, sizeof b, "\\u%04x", c); out += b; }
        else out += (char)c;
    }
  }
  out += '"';
}
void write_double(uint64_t bits, std::string& out) {
  double d; memcpy(&d, &bits, 8);
  char b[40];
  snprintf(b, sizeof b, "%.17g", d);
  out += b;
  if (!strpbrk(b, ".eE")) out += ".0";
}
static void wsp(std::string& out, const WriteOpts& o) {
  if (!o.ws_rng || o.ws_max <= 0) return;
  sim::Rng& r = *o.ws_rng;
  if (!r.chance(1, 3)) return;
  int n = r.chance(1, 10) ? (int)r.below((uint64_t)o.ws_max + 1) : (int)r.below(3);
  static const char w[4] = {' ', '\t', '\n', '\r'};
  for (int i = 0; i < n; i++) out += w[r.below(4)];
}
void write(const JVal& v, std::string& out, const WriteOpts& o) {
  char b[32];
  wsp(out, o);
  switch (v.k) {
    case JVal::Null: out += "null"; break;
    case JVal::False: out += "false"; break;
    case JVal::True: out += "true"; break;
    case JVal::Uint:
      if (v.u == 0 && o.escape_more && o.ws_rng && o.ws_rng->chance(1, 3)) { out += "-0"; break; }   // the integer literal -0 denotes the integer 0
      snprintf(b, sizeof b, "%llu", (unsigned long long)v.u); out += b; break;
    case JVal::Sint: snprintf(b, sizeof b, "%lld", (long long)v.i); out += b; break;
    case JVal::Real:
      if (o.escape_more && o.ws_rng && o.ws_rng->chance(1, 3)) {   // other spellings of the same double
        sim::Rng& r = *o.ws_rng;
        double d; memcpy(&d, &v.u, 8);
        char t[64];
        if (d == 0) { static const char* z[] = {"0e0", "0.000", "0E-7", "0.0e+5", "0.00E5", "0e-0"}; if (std::signbit(d)) out += '-'; out += z[r.below(6)]; }
        else { snprintf(t, sizeof t, r.chance(1, 2) ? "%.20e" : "%.19E", d); std::string x = t; if (r.chance(1, 2)) { size_t e = x.find_first_of("eE"); if (e != std::string::npos && x[e + 1] == '+' && r.chance(1, 2)) x.erase(e + 1, 1); } out += x; }
      } else write_double(v.u, out);
      break;
    case JVal::Str: write_string(v.s, out, o.escape_more ? o.ws_rng : nullptr); break;
    case JVal::Arr:
      out += '[';
      for (size_t i = 0; i < v.a.size(); i++) { if (i) out += ','; write(v.a[i], out, o); }
      wsp(out, o);
      out += ']';
      break;
    case JVal::Obj:
      out += '{';
      for (size_t i = 0; i < v.o.size(); i++) {
        if (i) out += ',';
        wsp(out, o);
        write_string(v.o[i].first, out, o.escape_more ? o.ws_rng : nullptr);
        wsp(out, o);
        out += ':';
        write(v.o[i].second, out, o);
      }
      wsp(out, o);
      out += '}';
      break;
  }
  wsp(out, o);
}
std::string write(const JVal& v) { std::string s; write(v, s); return s; }

// ------------------------------------------------------------------ specifications
JVal schema_merge(const JVal& e, const JVal& t) {
  if (e.k == JVal::Obj && !e.o.empty() && t.k == JVal::Obj) {
    JVal r = e;
    for (auto& kv : t.o) {
      int j = r.find(kv.first);
      if (j >= 0) r.o[j].second = schema_merge(r.o[j].second, kv.second);
    }
    return r;
  }
  return t;
}
JVal lazy_merge(const JVal& target, const JVal& source) {
  if (target.k == JVal::Obj && !target.o.empty() && source.k == JVal::Obj) {
    JVal r = target;
    for (auto& kv : source.o) {
      int j = r.find(kv.first);
      if (j >= 0) r.o[j].second = lazy_merge(r.o[j].second, kv.second);
      else r.o.push_back(kv);
    }
    return r;
  }
  return source;
}
const JVal* pointer(const JVal& root, const std::vector<PathElem>& path) {
  const JVal* cur = &root;
  for (auto& e : path) {
    if (e.is_index) {
      if (cur->k != JVal::Arr || e.index < 0 || (size_t)e.index >= cur->a.size()) return nullptr;
      cur = &cur->a[(size_t)e.index];
    } else {
      if (cur->k != JVal::Obj) return nullptr;
      int j = cur->find(e.key);
      if (j < 0) return nullptr;
      cur = &cur->o[j].second;
    }
  }
  return cur;
}

// ------------------------------------------------------------------ generators
uint64_t gen_double_bits(sim::Rng& r, bool allow_nonfinite) {
  static const double special[] = {0.0, -0.0, 1.0, -1.0, 0.1, 0.5, 1e-5, 1e21, 1e22, 1e23, 123456789.125, 5e-324, 2.2250738585072014e-308,
                                   1.7976931348623157e308, 4.9406564584124654e-324, 9007199254740992.0, 9007199254740993.0, 1e15, 1e16, 1e17,
                                   3.141592653589793, 2.5e-7, 1e-7, 123e45, 0.3, 1e100, 4294967296.0, 18446744073709551616.0, -9223372036854775808.0};
  uint64_t b;
  if (allow_nonfinite && r.chance(1, 4)) {   // +-inf, quiet/signalling NaNs with payloads
    static const uint64_t nf[] = {0x7ff0000000000000ull, 0xfff0000000000000ull, 0x7ff8000000000000ull, 0xfff8000000000000ull, 0x7ff0000000000001ull, 0x7fffffffffffffffull, 0xfff4000000000000ull};
    return nf[r.below(7)];
  }
  for (;;) {
    unsigned m = (unsigned)r.below(11);
    if (m == 10) {   // integer-valued and decimal-shifted doubles: d * 10^k (trailing-zero and leading-zero print paths)
      double d = (double)r.range(1, r.chance(1, 2) ? 9 : 99999) * std::pow(10.0, (double)r.range(-12, 24));
      if (r.chance(1, 3)) d = -d;
      memcpy(&b, &d, 8);
      return b;
    }
    if (m < 3) { double d = special[r.below(sizeof(special) / sizeof(special[0]))]; memcpy(&b, &d, 8); }
    else if (m < 5) { double d = (double)(int64_t)r.range(-100000, 100000) / (double)(1 + r.below(1000)); memcpy(&b, &d, 8); }
    else if (m < 6) { double d = (double)(int64_t)r.range(-1000, 1000); memcpy(&b, &d, 8); }
    else if (m < 7) {   // exact powers of two (the irregular Schubfach/Grisu boundary case) and their neighbours, any exponent
      int k = (int)r.range(-1074, 1023);
      double d = std::ldexp(1.0, k); memcpy(&b, &d, 8);
      b += (uint64_t)r.range(-1, 1);
      if (r.chance(1, 2)) b |= 0x8000000000000000ull;
    }
    else if (m < 8) {   // powers of ten and decimal-boundary values
      char t[32]; snprintf(t, sizeof t, "%de%d", (int)r.range(1, 9), (int)r.range(-323, 308));
      double d = strtod(t, nullptr); memcpy(&b, &d, 8);
      b += (uint64_t)r.range(-1, 1);
    }
    else b = r.next();
    bool nonfinite = ((b >> 52) & 0x7ff) == 0x7ff;
    if (!nonfinite || allow_nonfinite) return b;
  }
}
std::string gen_string(sim::Rng& r, const GenOpts& o) {
  size_t len;
  if (o.huge_strings && r.chance(1, 6)) {
    static const size_t H[] = {4000, 4095, 4096, 4097, 8192, 16383, 20000, 65472, 65536, 70000};
    len = H[r.below(10)];
  } else if (o.big_strings && r.chance(1, 8)) {
    static const int L[] = {15, 16, 17, 31, 32, 33, 47, 63, 64, 65, 100, 129, 200};
    len = (size_t)L[r.below(sizeof(L) / sizeof(L[0]))];
  } else len = (size_t)r.below((uint64_t)o.max_str + 1);
  std::string s;
  unsigned mode = (unsigned)r.below(7);
  for (size_t i = 0; i < len; i++) {
    unsigned char c;
    if (o.wild_strings && mode == 5 && r.chance(1, 2)) {   // well-formed 2/3/4-byte UTF-8 characters
      static const char* u8[] = {"\xc3\xa9", "\xce\xa9", "\xe4\xb8\xad", "\xe2\x82\xac", "\xf0\x9f\x98\x80", "\xf0\x90\x80\x80", "\xf4\x8f\xbf\xbf", "\xef\xbf\xbd", "\xdf\xbf", "\xe0\xa0\x80"};
      s += u8[r.below(10)]; continue;
    }
    if (o.wild_strings && mode == 6) { static const unsigned char six[] = {0, 1, 2, 3, 4, 5, 6, 7, 0x0b, 0x0e, 0x0f, 0x10, 0x11, 0x15, 0x1a, 0x1b, 0x1e, 0x1f}; c = six[r.below(sizeof six)]; s += (char)c; continue; }  // every byte expands 6x
    if (!o.wild_strings || mode < 2) c = (unsigned char)('a' + r.below(26));
    else if (mode == 2) { static const char sp[] = "\"\\/\b\f\n\r\t {}[]:,\x01\x1f\x7f"; c = (unsigned char)sp[r.below(sizeof(sp) - 1)]; }
    else if (mode == 3) c = (unsigned char)r.below(256);
    else if (mode == 4) c = r.chance(1, 4) ? (unsigned char)r.below(0x20) : (unsigned char)('A' + r.below(26));
    else c = r.chance(1, 6) ? (unsigned char)"\"\\\0\n"[r.below(4)] : (unsigned char)(0x20 + r.below(0x5f));
    s += (char)c;
  }
  return s;
}
std::string gen_key(sim::Rng& r, const GenOpts& o) {
  unsigned m = (unsigned)r.below(20);
  if (m == 0) return "";
  if (m == 1 && o.big_strings) {
    static const int L[] = {31, 32, 33, 64};
    size_t len = (size_t)L[r.below(4)];
    std::string s(len, 'k');
    s[len - 1] = (char)('0' + r.below((uint64_t)(o.key_alphabet < 10 ? o.key_alphabet : 10)));
    if (r.chance(1, 2)) s[0] = (char)('0' + r.below(3));
    return s;
  }
  if (m == 3 || m == 4) {   // families of keys sharing prefix and suffix, differing in the middle (lengths 9..40)
    static const int L[] = {9, 12, 13, 14, 15, 16, 17, 24, 33, 40, 65, 70, 97, 130, 200};
    size_t len = o.family_len > 8 ? (size_t)o.family_len : (size_t)L[r.below(o.big_strings ? 15 : 10)];
    if (o.family_len > 8 && r.chance(1, 5)) len += r.below(4);   // a few look-alikes of slightly different length
    std::string s = "user" + std::string(len - 4 - 4, '0') + "_end";
    s[4 + r.below(len - 8)] = r.chance(1, 5) ? (char)(0xC3 + r.below(3)) : (char)('1' + r.below((uint64_t)(o.key_alphabet < 9 ? o.key_alphabet : 9)));   // sometimes a non-ASCII byte
    return s;
  }
  if (m == 2 && o.wild_strings) { static const char* w[] = {"a\0b", "q\"", "b\\", "\n", "\xff\xfe", "a/b"}; size_t k = r.below(6); return k == 0 ? std::string("a\0b", 3) : std::string(w[k]); }
  std::string s;
  s += (char)('a' + r.below((uint64_t)(o.key_alphabet > 0 ? o.key_alphabet : 1)));
  if (r.chance(1, 5)) s += (char)('a' + r.below(3));
  return s;
}
JVal gen_scalar(sim::Rng& r, const GenOpts& o) {
  switch (r.below(8)) {
    case 0: return JVal::null();
    case 1: return JVal::boolean(r.chance(1, 2));
    case 2: {
      static const uint64_t U[] = {0, 1, 9, 10, 99, 100, 4294967295ull, 4294967296ull, 9223372036854775807ull, 9223372036854775808ull, 18446744073709551615ull, 12345678, 99999999, 100000000, 9999999999999999ull};
      return JVal::uint(r.chance(1, 2) ? U[r.below(sizeof(U) / sizeof(U[0]))] : (r.chance(1, 2) ? r.below(1000) : r.next()));
    }
    case 3: {
      static const int64_t I[] = {-1, -9, -10, -2147483648ll, -2147483649ll, INT64_MIN, -9223372036854775807ll, -12345678, -100000000};
      int64_t x = r.chance(1, 2) ? I[r.below(sizeof(I) / sizeof(I[0]))] : -(int64_t)(1 + r.below(r.chance(1, 2) ? 1000 : (1ull << 62)));
      return JVal::sint(x);
    }
    case 4: return JVal::real_bits(gen_double_bits(r, o.nonfinite));
    default: return JVal::str(gen_string(r, o));
  }
}
JVal gen_value(sim::Rng& r, const GenOpts& o, int depth) {
  if (depth >= o.max_depth || r.chance(2, 5)) return gen_scalar(r, o);
  size_t n = (size_t)r.below((uint64_t)o.max_children + 1);
  if (r.chance(1, 2)) {
    JVal v = JVal::arr();
    for (size_t i = 0; i < n; i++) v.a.push_back(gen_value(r, o, depth + 1));
    return v;
  }
  JVal v = JVal::obj();
  for (size_t i = 0; i < n; i++) {
    std::string k = gen_key(r, o);
    if (!o.dup_keys && v.find(k) >= 0) continue;
    v.o.emplace_back(std::move(k), gen_value(r, o, depth + 1));
  }
  return v;
}

std::string hex(const std::string& s) {
  static const char* d = "0123456789abcdef";
  std::string o; o.reserve(s.size() * 2);
  for (unsigned char c : s) { o += d[c >> 4]; o += d[c & 15]; }
  return o;
}
std::string unhex(const std::string& s) {
  std::string o;
  auto hv = [](char c) { return c >= 'a' ? c - 'a' + 10 : c >= 'A' ? c - 'A' + 10 : c - '0'; };
  for (size_t i = 0; i + 1 < s.size(); i += 2) o += (char)(hv(s[i]) * 16 + hv(s[i + 1]));
  return o;
}
std::string printable(const std::string& s, size_t max) {
  std::string o;
  for (size_t i = 0; i < s.size() && i < max; i++) {
    unsigned char c = (unsigned char)s[i];
    if (c >= 0x20 && c < 0x7f && c != '\\' && c != '"') o += (char)c;
    else { char b[8]; snprintf(b, sizeof b, "\\x%02x", c); o += b; }
  }
  if (s.size() > max) o += "...";
  return o;
}

JVal gen_mixed_key_object(sim::Rng& r, const GenOpts& o) {
  static const char* u8[] = {"\xe4\xb8\xad", "\xe6\x96\x87", "\xc3\xa9", "\xc3\xbc", "\xf0\x9f\x98\x80", "\xd0\xb6"};
  auto longkey = [&](bool utf) { std::string k; size_t want = (size_t)r.range(32, r.chance(1, 3) ? 300 : 140); while (k.size() < want) { if (utf && r.chance(2, 3)) k += u8[r.below(6)]; else k += (char)('a' + r.below(26)); if (r.chance(1, 9)) k += '.'; } return k; };
  JVal v = JVal::obj();
  size_t n = (size_t)r.range(8, 16);
  std::string nulstem = std::string("k") + (char)('a' + r.below(3)) + std::string(1, '\0');
  std::string stem = longkey(r.chance(1, 2));
  for (size_t i = 0; i < n; i++) {
    std::string k;
    switch (r.below(7)) {
      case 0: k = longkey(true); break;
      case 1: k = longkey(false); break;
      case 2: k = gen_key(r, o); break;
      case 3: k = nulstem + (char)('a' + r.below(6)); break;
      case 4: k = stem.substr(0, (size_t)r.range(1, (int64_t)stem.size())); break;
      case 5: { k = stem; k[r.below(k.size())] ^= (char)(r.chance(1, 2) ? 0x80 : 0x01); break; }
      default: k = std::string(u8[r.below(6)]) + (char)('0' + r.below(10)); break;
    }
    if (v.find(k) >= 0) continue;
    v.o.emplace_back(k, r.chance(1, 5) ? gen_value(r, o, o.max_depth > 1 ? o.max_depth - 1 : 1) : gen_scalar(r, o));
  }
  return v;
}

JVal gen_dense_value(sim::Rng& r) {
  static const int around[] = {14, 16, 30, 32, 62, 64, 66, 126, 128, 130, 254, 256, 510, 512, 1022, 1026, 2046, 2050, 4094, 4100};
  size_t n = (size_t)(r.chance(1, 3) ? r.range(1, 140) : around[r.below(r.chance(1, 6) ? 20 : 14)] + (int)r.range(-2, 2));
  if ((long)n < 0) n = 1;
  unsigned kind = (unsigned)r.below(6);
  JVal v = (kind == 4) ? JVal::obj() : JVal::arr();
  for (size_t i = 0; i < n; i++) {
    switch (kind) {
      case 0: v.a.push_back(JVal::uint(i % 10)); break;                        // [1,2,3,...
      case 1: v.a.push_back(JVal::str("")); break;                             // ["","",...
      case 2: v.a.push_back(r.chance(1, 2) ? JVal::arr() : JVal::obj()); break;  // [[],{},...
      case 3: v.a.push_back(i % 3 == 0 ? JVal::uint(i % 10) : i % 3 == 1 ? JVal::arr() : JVal::str("")); break;
      case 4: { std::string k; size_t q = i; do { k += (char)('a' + q % 26); q /= 26; } while (q); v.o.emplace_back(k, JVal::uint(i % 10)); break; }   // {"a":0,"b":1,...
      default: { JVal in = JVal::arr(); in.a.push_back(JVal::uint(i % 10)); v.a.push_back(in); break; }   // [[0],[1],...
    }
  }
  if (r.chance(1, 4)) { JVal w = JVal::arr(); w.a.push_back(std::move(v)); v = std::move(w); }
  else if (r.chance(1, 4)) { JVal w = JVal::obj(); w.o.emplace_back("k", std::move(v)); v = std::move(w); }
  return v;
}

}  // namespace model
