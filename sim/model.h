// Reference model (DESIGN §2.5): independent of sonic-cpp, no SIMD, no shared code.
#pragma once
#include <cstdint>
#include <string>
#include <utility>
#include <vector>

#include "rng.h"

namespace model {

struct JVal {
  enum K : uint8_t { Null, False, True, Uint, Sint, Real, Str, Arr, Obj };
  K k = Null;
  uint64_t u = 0;      // Uint value, or Real bit pattern
  int64_t i = 0;       // Sint value (always < 0)
  std::string s;       // Str
  std::vector<JVal> a; // Arr
  std::vector<std::pair<std::string, JVal>> o;  // Obj: textual order, duplicates kept
  bool has_map = false;  // bookkeeping for C12 only (never part of equality)

  static JVal null() { return JVal(); }
  static JVal boolean(bool b) { JVal v; v.k = b ? True : False; return v; }
  static JVal uint(uint64_t x) { JVal v; v.k = Uint; v.u = x; return v; }
  static JVal sint(int64_t x) { JVal v; if (x >= 0) { v.k = Uint; v.u = (uint64_t)x; } else { v.k = Sint; v.i = x; } return v; }
  static JVal real_bits(uint64_t bits) { JVal v; v.k = Real; v.u = bits; return v; }
  static JVal real(double d);
  static JVal str(std::string x) { JVal v; v.k = Str; v.s = std::move(x); return v; }
  static JVal arr() { JVal v; v.k = Arr; return v; }
  static JVal obj() { JVal v; v.k = Obj; return v; }
  double dbl() const;
  bool is_container() const { return k == Arr || k == Obj; }
  size_t count_nodes() const;
  int find(const std::string& key) const;      // first member with key, -1
  int count_key(const std::string& key) const;
  bool has_dup_keys_deep() const;
  bool has_dup_keys() const;                   // this object only
  void clear_maps();                           // recursively reset has_map
  bool nonfinite_deep() const;
  size_t max_object_size() const;              // largest number of members of any object in the value
};

// equality "as JSON values with number kinds distinguished" (objects as key->value maps; only
// meaningful without duplicate keys)
bool equal_value(const JVal& a, const JVal& b);
// structural identity (order of members matters, duplicates compared positionally)
bool equal_struct(const JVal& a, const JVal& b);

// canonical structural text (kinds visible; used for model-vs-implementation comparison)
void canon(const JVal& v, std::string& out);
std::string canon(const JVal& v);

// ---- strict RFC 8259 reference parser
struct ParseOut {
  bool ok = false;
  JVal v;
  size_t err_pos = 0;          // position of the first fault
  bool err_in_string = false;  // the first fault lies inside a string literal
  bool err_infinity = false;   // number overflows double
};
ParseOut parse(const std::string& text);
ParseOut parse(const char* p, size_t n);

// ---- writer
struct WriteOpts {
  sim::Rng* ws_rng = nullptr;  // random whitespace
  int ws_max = 0;              // max run length
  bool escape_more = false;    // use \uXXXX spellings for some chars (needs rng)
};
void write(const JVal& v, std::string& out, const WriteOpts& o = WriteOpts());
std::string write(const JVal& v);
void write_string(const std::string& s, std::string& out, sim::Rng* esc_rng = nullptr);
void write_double(uint64_t bits, std::string& out);  // shortest-ish via %.17g, always fraction/exp

// ---- executable specifications
// C19: ParseSchema merge of text value t into existing value e
JVal schema_merge(const JVal& e, const JVal& t);
// C20: UpdateLazy merge of source into target
JVal lazy_merge(const JVal& target, const JVal& source);
// JSON pointer lookup: path elements are (is_index, key, index). returns nullptr if unresolved
struct PathElem { bool is_index = false; std::string key; int64_t index = 0; };
const JVal* pointer(const JVal& root, const std::vector<PathElem>& path);

// ---- value generation (shared by profiles)
struct GenOpts {
  int max_depth = 3;
  int max_children = 5;
  int max_str = 12;
  bool dup_keys = false;
  bool wild_strings = true;    // arbitrary bytes 0..255 in strings
  bool big_strings = false;    // occasionally 31/32/33/64/100+ byte strings
  bool huge_strings = false;   // occasionally 4..70 KB strings (crosses pages, SimMem size classes, default chunk size)
  bool nonfinite = false;
  int key_alphabet = 6;        // small alphabet => hits and duplicates
  int family_len = 0;          // >0: all "family" keys of this run have this length (differ only in one middle byte)
};
JVal gen_value(sim::Rng& r, const GenOpts& o, int depth = 0);
std::string gen_key(sim::Rng& r, const GenOpts& o);
// object with 8..16 distinct keys that mix scripts, lengths and shared prefixes (what a lookup map has to order): long UTF-8,
// long ASCII, short, keys equal up to an embedded NUL, prefixes of one long key, keys one byte (high bit / low bit) apart
JVal gen_mixed_key_object(sim::Rng& r, const GenOpts& o);
// value with as many nodes per text byte as JSON allows (one-character elements, empty containers, one-character distinct keys):
// every buffer a parser sizes from the text length is at its tightest. Element counts sit around 16/32/64/128/.../4096.
JVal gen_dense_value(sim::Rng& r);
std::string gen_string(sim::Rng& r, const GenOpts& o);
JVal gen_scalar(sim::Rng& r, const GenOpts& o);
uint64_t gen_double_bits(sim::Rng& r, bool allow_nonfinite);

// fast number formatting for canonical forms (snprintf dominated the profile)
inline void put_u64(std::string& out, uint64_t v) { char b[24]; int i = 24; do { b[--i] = (char)('0' + v % 10); v /= 10; } while (v); out.append(b + i, (size_t)(24 - i)); }
inline void put_i64(std::string& out, int64_t v) { if (v < 0) { out += '-'; put_u64(out, (uint64_t)0 - (uint64_t)v); } else put_u64(out, (uint64_t)v); }
inline void put_hex16(std::string& out, uint64_t v) { static const char* d = "0123456789abcdef"; char b[16]; for (int i = 15; i >= 0; i--) { b[i] = d[v & 15]; v >>= 4; } out.append(b, 16); }
std::string hex(const std::string& s);
std::string unhex(const std::string& s);
std::string printable(const std::string& s, size_t max = 200);

}  // namespace model
