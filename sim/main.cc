// simsonic — worker binary.  Modes:
//   batch  --prop P --seed S --worker w --nworkers n --max-runs N --seconds T --tier quick|thorough
//          --status FILE --hashes FILE [--known SIG]...
//   plan   --prop P --seed S --run i --tier T -o FILE
//   replay FILE [--verbose] [--known SIG]...
// Output protocol (stdout, one JSON object per line, prefixed):
//   V {...}  violation     K {...} known finding met     S {...} final statistics     O {...} replay outcome
#include <fcntl.h>
#include <sys/mman.h>
#include <unistd.h>

#include <chrono>
#include <cstdio>
#include <cstdlib>
#include <cstring>
#include <string>
#include <unordered_set>

#include "mem.h"
#include "plan.h"

using namespace sim;

#ifdef __SANITIZE_ADDRESS__
extern "C" __attribute__((used, noinline)) const char* __asan_default_options() {
  return "exitcode=77:detect_leaks=0:allocator_may_return_null=1:abort_on_error=0:handle_segv=1:detect_stack_use_after_return=0";
}
#endif

#ifndef SIM_THREADS
extern "C" void sonic_verif_sim_point(int) {}  // scheduler yield points are only used by the thread harness
// tight-growth buggify switch read by the hook in internal::Stack::Grow
namespace sim { int g_tight_growth = 0; uint64_t g_tight_hits = 0; }
extern "C" int sonic_verif_tight_growth() {
  if (sim::g_tight_growth) sim::g_tight_hits++;
  return sim::g_tight_growth;
}
#endif

static uint64_t* g_status = nullptr;   // [0]=current run, [1]=runs done, [2]=current op (best effort)
static bool g_replay_mode = false;
static std::string g_prop;

static void emit_violation(const char* tag, uint64_t run, const std::string& cls, const std::string& site, int op, const std::string& detail, uint64_t hash) {
  printf("%s {\"prop\":%s,\"run\":%llu,\"class\":%s,\"site\":%s,\"op\":%d,\"detail\":%s,\"hash\":\"%016llx\"}\n", tag, jstr(g_prop).c_str(),
         (unsigned long long)run, jstr(cls).c_str(), jstr(site).c_str(), op, jstr(detail).c_str(), (unsigned long long)hash);
  fflush(stdout);
}

static Plan* g_cur_plan = nullptr;
static void on_fatal(const char* cls, const char* detail, int op, int /*opkind*/) {
  // async-signal context: keep it simple, the process exits right after
  char buf[1024];
  const char* kind = "?";
  static char kbuf[64];
  if (g_cur_plan && op >= 0 && (size_t)op < g_cur_plan->ops.size()) { snprintf(kbuf, sizeof kbuf, "%s", g_cur_plan->ops[(size_t)op].kind.c_str()); kind = kbuf; }
  else if (g_cur_plan && op >= (int)g_cur_plan->ops.size()) kind = "Teardown";
  else if (op < 0) kind = "Setup";
  int n = snprintf(buf, sizeof buf, "%s {\"prop\":\"%s\",\"run\":%llu,\"class\":\"%s\",\"site\":\"%s:memfault\",\"op\":%d,\"detail\":\"%s [env %d]\",\"hash\":\"0\"}\n",
                   g_replay_mode ? "O" : "V", simmem::g_fatal_ctx.prop, (unsigned long long)simmem::g_fatal_ctx.run, cls, kind, op, detail, simmem::g_fatal_ctx.env_id);
  if (n > 0) { ssize_t w = write(1, buf, (size_t)n); (void)w; }
}

static const char* arg(int argc, char** argv, const char* name, const char* def = nullptr) {
  for (int i = 1; i + 1 < argc; i++) if (!strcmp(argv[i], name)) return argv[i + 1];
  return def;
}
static bool flag(int argc, char** argv, const char* name) {
  for (int i = 1; i < argc; i++) if (!strcmp(argv[i], name)) return true;
  return false;
}

static void print_stats(double wall, uint64_t distinct) {
  printf("S {\"runs\":%llu,\"ops\":%llu,\"skipped\":%llu,\"nontrivial\":%llu,\"distinct_local\":%llu,\"wall_s\":%.3f,\"simmem\":{",
         (unsigned long long)g_stats.runs, (unsigned long long)g_stats.ops, (unsigned long long)g_stats.skipped, (unsigned long long)g_stats.nontrivial,
         (unsigned long long)distinct, wall);
  for (int i = 0; i < simmem::NCTR; i++) printf("%s\"%s\":%llu", i ? "," : "", simmem::kCtrNames[i], (unsigned long long)simmem::g_ctr[i]);
  printf("},\"probes\":{");
  bool f = true;
  for (auto& kv : g_stats.probe) { printf("%s%s:%llu", f ? "" : ",", jstr(kv.first).c_str(), (unsigned long long)kv.second); f = false; }
  printf("},\"configured\":{");
  f = true;
  for (auto& kv : g_stats.configured) { printf("%s%s:%llu", f ? "" : ",", jstr(kv.first).c_str(), (unsigned long long)kv.second); f = false; }
  printf("},\"fired\":{");
  f = true;
  for (auto& kv : g_stats.fired) { printf("%s%s:%llu", f ? "" : ",", jstr(kv.first).c_str(), (unsigned long long)kv.second); f = false; }
  printf("}}\n");
  fflush(stdout);
}

int main(int argc, char** argv) {
  if (argc < 2) { fprintf(stderr, "usage: simsonic batch|plan|replay ...\n"); return 2; }
  std::string mode = argv[1];
  for (int i = 1; i + 1 < argc; i++) if (!strcmp(argv[i], "--known")) g_known.push_back(argv[i + 1]);
  g_verbose = flag(argc, argv, "--verbose");
#ifndef SIM_THREADS
  simmem::init();
#endif
  simmem::g_on_fatal = on_fatal;

  if (mode == "rule") {
    const Profile* pf = find_profile(arg(argc, argv, "--prop", ""));
    if (pf) puts(pf->rule);
    return pf ? 0 : 2;
  }
  if (mode == "plan") {
    g_prop = arg(argc, argv, "--prop", "");
    const Profile* pf = find_profile(g_prop);
    if (!pf) { fprintf(stderr, "unknown property %s\n", g_prop.c_str()); return 2; }
    Plan p;
    pf->gen(strtoull(arg(argc, argv, "--seed", "1"), nullptr, 10), strtoull(arg(argc, argv, "--run", "0"), nullptr, 10), arg(argc, argv, "--tier", "quick"), p);
    const char* o = arg(argc, argv, "-o");
    if (o) return plan_save(o, p) ? 0 : 2;
    fputs(plan_to_json(p).c_str(), stdout);
    return 0;
  }

  if (mode == "replay") {
    if (argc < 3) return 2;
    std::vector<Plan> seq; std::string err;
    if (!plan_load_seq(argv[2], seq, err)) { fprintf(stderr, "replay: %s\n", err.c_str()); return 2; }
    g_replay_mode = true;
    static std::string propkeep;
    Outcome out;
    for (size_t pi = 0; pi < seq.size(); pi++) {
      Plan& p = seq[pi];
      g_prop = p.prop;
      const Profile* pf = find_profile(p.prop);
      if (!pf) { fprintf(stderr, "unknown property %s\n", p.prop.c_str()); return 2; }
      g_cur_plan = &p;
      propkeep = p.prop;
      simmem::g_fatal_ctx.prop = propkeep.c_str(); simmem::g_fatal_ctx.run = p.run;
      out = Outcome();
      pf->exec(p, out);
      if (g_verbose) for (auto& t : out.obs_text) fprintf(stderr, "  %s\n", t.c_str());
      for (auto& k : out.known) { printf("K {\"prop\":%s,\"run\":%llu,\"sig\":%s}\n", jstr(p.prop).c_str(), (unsigned long long)p.run, jstr(k).c_str()); }
      if (out.violated && pi + 1 < seq.size()) { fprintf(stderr, "note: earlier plan %zu of the history also violates (%s @ %s); continuing to the last one\n", pi, out.vclass.c_str(), out.site.c_str()); continue; }
      if (out.violated) { emit_violation("O", p.run, out.vclass, out.site, out.op, out.detail, out.obs_hash); return 1; }
    }
    Plan& p = seq.back();
    printf("O {\"prop\":%s,\"run\":%llu,\"class\":\"none\",\"site\":\"\",\"op\":-1,\"detail\":\"\",\"hash\":\"%016llx\",\"executed\":%llu,\"skipped\":%llu}\n", jstr(p.prop).c_str(),
           (unsigned long long)p.run, (unsigned long long)out.obs_hash, (unsigned long long)out.ops_executed, (unsigned long long)out.ops_skipped);
    return 0;
  }

  if (mode == "batch") {
    g_prop = arg(argc, argv, "--prop", "");
    const Profile* pf = find_profile(g_prop);
    if (!pf) { fprintf(stderr, "unknown property %s\n", g_prop.c_str()); return 2; }
    uint64_t seed = strtoull(arg(argc, argv, "--seed", "1"), nullptr, 10);
    uint64_t w = strtoull(arg(argc, argv, "--worker", "0"), nullptr, 10);
    uint64_t nw = strtoull(arg(argc, argv, "--nworkers", "1"), nullptr, 10);
    uint64_t first = strtoull(arg(argc, argv, "--first-run", "0"), nullptr, 10);
    uint64_t maxruns = strtoull(arg(argc, argv, "--max-runs", "1000000000"), nullptr, 10);
    double seconds = atof(arg(argc, argv, "--seconds", "10"));
    std::string tier = arg(argc, argv, "--tier", "quick");
    const char* statusf = arg(argc, argv, "--status");
    const char* hashf = arg(argc, argv, "--hashes");
    bool print_hash = flag(argc, argv, "--print-hashes");
    if (statusf) {
      int fd = open(statusf, O_RDWR | O_CREAT | O_TRUNC, 0644);
      if (fd >= 0 && ftruncate(fd, 64) == 0) g_status = (uint64_t*)mmap(nullptr, 64, PROT_READ | PROT_WRITE, MAP_SHARED, fd, 0);
      if (g_status == MAP_FAILED) g_status = nullptr;
    }
    static std::string propkeep; propkeep = g_prop;
    simmem::g_fatal_ctx.prop = propkeep.c_str();
    std::unordered_set<uint64_t> distinct;
    FILE* hf = hashf ? fopen(hashf, "wb") : nullptr;   // distinct-case digests, appended as found (survive a fatal run)
    auto t0 = std::chrono::steady_clock::now();
    auto elapsed = [&] { return std::chrono::duration<double>(std::chrono::steady_clock::now() - t0).count(); };
    uint64_t nviol = 0;
    std::vector<uint64_t> runlist;
    if (const char* rl = arg(argc, argv, "--runs")) { const char* q = rl; while (*q) { runlist.push_back(strtoull(q, (char**)&q, 10)); if (*q == ',') q++; } }
    size_t rli = 0;
    for (uint64_t i = first + w; i < maxruns; i += nw) {
      if (!runlist.empty()) { if (rli >= runlist.size()) break; i = runlist[rli++]; }
      if ((g_stats.runs & 15) == 0 && elapsed() > seconds) break;
      if (g_status) { g_status[0] = i; g_status[1] = g_stats.runs; }
      Plan p;
      pf->gen(seed, i, tier, p);
      g_cur_plan = &p;
      simmem::g_fatal_ctx.run = i;
      Outcome out;
      pf->exec(p, out);
      g_cur_plan = nullptr;
      g_stats.runs++; g_stats.ops += out.ops_executed; g_stats.skipped += out.ops_skipped;
      bool nontriv = out.ops_executed >= 1 && out.faults_fired >= 1;
      if (nontriv) {
        g_stats.nontrivial++;
        uint64_t dh = mix64(plan_shape_hash(p) ^ mix64(out.outcome_vec));
        if (distinct.insert(dh).second && hf) { fwrite(&dh, 8, 1, hf); if ((distinct.size() & 63) == 0) fflush(hf); }
      }
      for (auto& k : out.known) {
        if (!g_stats.configured.count("known:" + k)) { printf("K {\"prop\":%s,\"run\":%llu,\"sig\":%s}\n", jstr(g_prop).c_str(), (unsigned long long)i, jstr(k).c_str()); fflush(stdout); }
        g_stats.configured["known:" + k]++;
      }
      if (print_hash) printf("H %llu %016llx\n", (unsigned long long)i, (unsigned long long)out.obs_hash);
      if (out.violated) {
        emit_violation("V", i, out.vclass, out.site, out.op, out.detail, out.obs_hash);
        if (++nviol >= 5) break;
      }
    }
    if (g_status) g_status[0] = ~0ull;
    if (hf) fclose(hf);
    print_stats(elapsed(), distinct.size());
    simmem::deactivate();
    return nviol ? 1 : 0;
  }
  fprintf(stderr, "unknown mode %s\n", mode.c_str());
  return 2;
}
