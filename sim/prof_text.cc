// Text-driven profiles: C11 (on-demand scanning stays inside the unpadded input),
// C20 (UpdateLazy is a faithful recursive merge), C15 (all x86 configurations agree).
#include "domlib.h"
#include "sonic/experiment/lazy_update.h"

namespace {
using namespace sim;
using namespace sonic_json;
using model::JVal;

using DSim = GenericDocument<DNode<SimAlloc>>;

static std::string gen_text(Rng& r, model::GenOpts go, int depth, int ws_max, JVal* out = nullptr) {
  go.max_depth = depth;
  JVal v = model::gen_value(r, go);
  if (!v.is_container() && r.chance(2, 3)) { JVal w = r.chance(1, 2) ? JVal::arr() : JVal::obj(); if (w.k == JVal::Arr) { w.a.push_back(v); w.a.push_back(model::gen_value(r, go, 1)); } else { w.o.emplace_back(model::gen_key(r, go), v); } v = w; }
  std::string t; model::WriteOpts wo; wo.ws_rng = &r; wo.ws_max = ws_max; wo.escape_more = r.chance(1, 3);
  if (r.chance(1, 25)) { v = model::gen_dense_value(r); wo.ws_max = 0; wo.escape_more = false; }   // compact text, most nodes per byte
  model::write(v, t, wo);
  if (out) *out = v;
  return t;
}
static std::string mutate_text(Rng& r, std::string t) {
  if (t.empty()) return t;
  switch (r.below(7)) {
    case 0: t.resize(r.below(t.size() + 1)); break;
    case 1: t[r.below(t.size())] = (char)r.below(256); break;
    case 2: { static const char sp[] = "[]{}\",:\\"; t[r.below(t.size())] = sp[r.below(sizeof(sp) - 1)]; break; }
    case 3: t.erase(r.below(t.size()), 1); break;
    case 4: { static const char sp[] = "[]{}\",:\\0-e. "; t.insert(r.below(t.size() + 1), 1, sp[r.below(sizeof(sp) - 1)]); break; }
    case 5: { size_t a = r.below(t.size()); if (r.chance(1, 4)) t.insert(a, 1, '\0'); else t.insert(a, std::string(r.below(70), ' ')); break; }   // a stray NUL, or a run of blanks
    default: { size_t a = r.below(t.size()), b = r.below(t.size()); std::swap(t[a], t[b]); break; }
  }
  return t;
}
// a byte that no JSON text contains (NUL, control, DEL, 0xff) right behind a number or literal, i.e. inside the region the on-demand
// scanner steps over while it looks for the next ',' ']' '}' - every configuration must step over it the same way
static std::string garbage_after_primitive(Rng& r, std::string t) {
  std::vector<size_t> at;
  for (size_t i = 0; i + 1 < t.size(); i++) if (strchr("0123456789el", t[i]) && strchr(",]}", t[i + 1])) at.push_back(i + 1);
  if (at.empty()) return t;
  static const char g[] = {'\0', '\0', '\x01', '\x7f', '\xff', '\x1f'};
  size_t k = (size_t)r.range(1, 2);
  for (size_t q = 0; q < k; q++) t.insert(at[r.below(at.size())], 1, g[r.below(6)]);
  return t;
}
static std::string gen_pspec(Rng& r, const model::GenOpts& go, int maxlen) {
  std::vector<PSpec> v; size_t n = r.below((uint64_t)maxlen + 1);
  for (size_t i = 0; i < n; i++) {
    PSpec e; e.n = 0;
    switch (r.below(8)) {
      case 0: e.t = 'k'; e.key = model::gen_key(r, go); break;
      case 1: case 2: case 3: e.t = 'K'; e.n = (int64_t)r.below(8); break;
      case 4: case 5: case 6: e.t = 'I'; e.n = (int64_t)r.below(8); break;
      default: e.t = 'i'; e.n = r.range(-2, 9); break;
    }
    v.push_back(e);
  }
  return pspec_encode(v);
}

// ------------------------------------------------------------------ C11
struct ODResult { int err; size_t off; long start; size_t len; };
static ODResult on_demand(const char* data, size_t n, const JsonPointer& jp, bool view_pointer = false) {
  StringView target;
  ParseResult pr;
  if (view_pointer) {   // the StringView-typed pointer must behave like the std::string one
    JsonPointerView jv;
    for (auto& e : jp) { if (e.IsStr()) jv /= JsonPointerNodeView(StringView(e.GetStr())); else jv /= JsonPointerNodeView(e.GetNum()); }
    pr = GetOnDemand(StringView(data, n), jv, target);
  } else pr = GetOnDemand(StringView(data, n), jp, target);
  ODResult r;
  r.err = (int)pr.Error(); r.off = pr.Offset();
  r.start = pr.Error() ? -1 : (long)(target.data() - data); r.len = target.size();
  if (!pr.Error()) {
    if (target.data() < data || target.data() + target.size() > data + n)
      violate("contract", "OnDemand:slice_outside_input", "GetOnDemand reported success with a slice [" + std::to_string(r.start) + ", +" + std::to_string(r.len) + ") outside the " + std::to_string(n) + "-byte input");
    if (pr.Offset() > n) violate("contract", "OnDemand:offset_beyond_input", "GetOnDemand reported success with offset " + std::to_string(pr.Offset()) + " > length " + std::to_string(n));
  } else if (target.size() != 0) {
    violate("contract", "OnDemand:slice_on_error", "GetOnDemand reported an error but left a non-empty slice");
  }
  return r;
}

static uint64_t g_c11_cases = 0;
static void exec_c11(const Plan& p, Outcome& out) {
  simmem::Env env = make_env((uint64_t)p.K("envseed", 1), 0);
  env.hostile = 1;
  simmem::g_fatal_ctx.env_id = 0;
  uint64_t c0 = simmem::g_ctr[simmem::C_ALLOC];
  simmem::begin_run(env);
  std::vector<uint64_t> hashes;
  int cur = -1;
  try {
    for (size_t i = 0; i < p.ops.size(); i++) {
      const Op& op = p.ops[i];
      cur = (int)i;
      simmem::set_op((int)i, 11);
      const std::string& text = op.S(0);
      model::ParseOut ref = model::parse(text);
      auto ps = pspec_decode(op.S(1));
      auto path = pspec_resolve(ps, ref.ok ? ref.v : JVal::null());
      JsonPointer jp = to_json_pointer(path);
      int64_t only = op.A(0, -1);
      std::string ob;
      size_t lo = only < 0 ? 0 : (size_t)only, hi = only < 0 ? text.size() : (size_t)only;
      if (hi > text.size()) { lo = hi = text.size(); }
      for (size_t n = lo; n <= hi; n++) {
        ODResult res[3];
        static const simmem::Place places[3] = {simmem::PL_END, simmem::PL_START, simmem::PL_MID};
        static const char hostile[] = "\"}]\\\"{[,:\"x\":1}]\"";
        for (int pl = 0; pl < 3; pl++) {
          CBuf b; b.n = n;
          if (n == 0) b.init(nullptr, 0, places[pl]);
          else { b.base = simmem::caller_buf(text.data(), n, places[pl], hostile, sizeof(hostile) - 1); b.data = b.base; }
          out.detail = "prefix " + std::to_string(n) + " placement " + std::to_string(pl);
          res[pl] = on_demand(b.data, n, jp, pl == 2);
          if (n && memcmp(b.data, text.data(), n) != 0) violate("contract", "OnDemand:input_modified", "GetOnDemand wrote into the caller's buffer");
          b.free();
          g_c11_cases++;
        }
        for (int pl = 1; pl < 3; pl++) {
          if (res[pl].err != res[0].err || res[pl].start != res[0].start || res[pl].len != res[0].len || res[pl].off != res[0].off)
            violate("env_dependence", "OnDemand:placement", "result for the " + std::to_string(n) + "-byte prefix depends on where the buffer lies / what follows it: end-of-page (err " + std::to_string(res[0].err) + ", slice " + std::to_string(res[0].start) + "+" + std::to_string(res[0].len) + ", off " + std::to_string(res[0].off) + ") vs placement " + std::to_string(pl) + " (err " + std::to_string(res[pl].err) + ", slice " + std::to_string(res[pl].start) + "+" + std::to_string(res[pl].len) + ", off " + std::to_string(res[pl].off) + ")");
        }
        ob += std::to_string(res[0].err) + ":" + std::to_string(res[0].start) + "+" + std::to_string(res[0].len) + ";";
        // Document::ParseOnDemand on the same unpadded buffer (end of page)
        if ((n & 3) == 0 || only >= 0) {
          CBuf b; if (n == 0) b.init(nullptr, 0, simmem::PL_END); else { b.base = simmem::caller_buf(text.data(), n, simmem::PL_END); b.data = b.base; }
          {
            DSim d;
            d.ParseOnDemand(b.data, n, jp);
            if (d.HasParseError() && !d.IsNull()) violate("contract", "ParseOnDemand:failed_state", "document not null after failed ParseOnDemand");
            ob += d.HasParseError() ? 'e' : 'k';
          }
          b.free();
          drain_pending("ParseOnDemand:ledger");
          if (simmem::live_count(simmem::SIMALLOC) || simmem::live_count(simmem::LIBC)) violate("ledger", "ParseOnDemand:leak", "memory left allocated after the document died");
        }
      }
      out.ops_executed++;
      if (ref.ok && only < 0) probe("c11_valid_text_all_prefixes");
      hashes.push_back(fnv1a(ob.data(), ob.size()));
      if (g_verbose) out.obs_text.push_back("OnDemand " + model::printable(text, 120) + " -> " + model::printable(ob, 300));
    }
  } catch (Violation& v) {
    out.violated = true; out.vclass = v.cls; out.site = v.site; out.detail = v.detail + " [" + out.detail + "]"; out.op = cur;
    return;
  }
  out.detail.clear();
  out.faults_fired = simmem::g_ctr[simmem::C_ALLOC] - c0;
  uint64_t h = 0x11; for (auto x : hashes) h = mix64(h ^ x);
  out.obs_hash = h; out.op_hashes = hashes; out.outcome_vec = h;
  g_stats.probe["c11_cases(prefix x placement)"] = g_c11_cases;
}
static void gen_c11(uint64_t seed, uint64_t run, const std::string& tier, Plan& p) {
  uint64_t rs = mix3(seed, prop_tag("C11"), run);
  Rng r(rs);
  p.prop = "C11"; p.seed = seed; p.run = run; p.tier = tier;
  p.knobs["envseed"] = (int64_t)(mix64(rs ^ 0x77) >> 1);
  model::GenOpts go; go.dup_keys = r.chance(1, 4); go.big_strings = r.chance(1, 3); go.key_alphabet = 4; go.max_children = 4;
  bool longkeys = r.chance(1, 8);   // keys of 200..300 bytes (scratch buffers for escaped keys), text limit raised for this run
  if (longkeys) { static const int fl[] = {200, 225, 240, 255, 256, 300}; go.family_len = fl[r.below(6)]; go.max_children = 2; }
  size_t n = (size_t)r.range(1, longkeys ? 1 : 3);
  for (size_t i = 0; i < n; i++) {
    std::string t = gen_text(r, go, (int)r.range(1, longkeys ? 2 : 3), r.chance(1, 3) ? (r.chance(1, 4) ? 300 : 70) : 3);
    if (longkeys) { JVal o = JVal::obj(); size_t m = (size_t)r.range(1, 2); for (size_t k = 0; k < m; k++) { go.big_strings = true; std::string key; do key = model::gen_key(r, go); while (key.size() < 100); if (o.find(key) < 0) o.o.emplace_back(key, model::gen_scalar(r, go)); } model::WriteOpts wo; wo.ws_rng = &r; wo.ws_max = 2; wo.escape_more = true; t.clear(); model::write(o, t, wo); }
    if (r.chance(1, 3)) t = mutate_text(r, t);
    else if (r.chance(1, 8)) t = garbage_after_primitive(r, t);
    size_t cap = longkeys ? 900u : (tier == "thorough" ? 400u : 220u);
    if (t.size() > cap) t.resize(cap);
    size_t npaths = (size_t)r.range(1, 3);
    for (size_t k = 0; k < npaths; k++) {
      p.ops.emplace_back(); Op& op = p.ops.back();
      op.kind = "OnDemand"; op.a.push_back(-1); op.s.push_back(t); op.s.push_back(gen_pspec(r, go, 3));
    }
  }
}

// ------------------------------------------------------------------ C20
static void exec_c20(const Plan& p, Outcome& out) {
  std::vector<std::string> obs[2];
  uint64_t c0 = simmem::g_ctr[simmem::C_ALLOC];
  int cur = -1;
  for (int e = 0; e < 2; e++) {
    simmem::Env env = make_env((uint64_t)p.K("envseed", 1), e);
    if (e == 0 && p.K("fill", -1) >= 0) env.fill = (uint8_t)p.K("fill", 0);
    simmem::g_fatal_ctx.env_id = e;
    simmem::begin_run(env);
    try {
      for (size_t i = 0; i < p.ops.size(); i++) {
        const Op& op = p.ops[i];
        cur = (int)i;
        simmem::set_op((int)i, 20);
        const std::string& tt = op.S(0); const std::string& st = op.S(1);
        model::ParseOut rt = model::parse(tt), rs = model::parse(st);
        CBuf tb(tt, simmem::PL_AUTO), sb(st, simmem::PL_AUTO);
        std::string res = UpdateLazy(StringView(tb.data, tt.size()), StringView(sb.data, st.size()));
        // the arguments are views of the caller's text: it may be const, shared between both arguments, or used again
        if (memcmp(tb.data, tt.data(), tt.size()) != 0 || memcmp(sb.data, st.data(), st.size()) != 0)
          violate("model", "UpdateLazy:input_modified", "UpdateLazy wrote into the caller's " + std::string(memcmp(tb.data, tt.data(), tt.size()) ? "target" : "source") + " text");
        tb.release(); sb.release();
        drain_pending("UpdateLazy:ledger");
        if (simmem::live_count(simmem::LIBC)) violate("ledger", "UpdateLazy:leak", "UpdateLazy left " + std::to_string(simmem::live_count(simmem::LIBC)) + " block(s) allocated");
        obs[e].push_back(res);
        if (e == 0) out.ops_executed++;
        if (!rt.ok || !rs.ok) continue;                      // statement is about valid texts
        if (rt.v.has_dup_keys_deep() || rs.v.has_dup_keys_deep()) continue;
        model::ParseOut rr = model::parse(res);
        if (!rr.ok) violate("model", "UpdateLazy:invalid_json", "result is not valid JSON: " + model::printable(res, 300) + " target=" + model::printable(tt, 200) + " source=" + model::printable(st, 200));
        JVal want = model::lazy_merge(rt.v, rs.v);
        if (!model::equal_value(rr.v, want))
          violate("model", "UpdateLazy:merge", "target=" + model::printable(tt, 250) + " source=" + model::printable(st, 250) + " result=" + model::printable(res, 250) + " expected=" + model::printable(model::write(want), 250));
        if (e == 0) { probe("c20_merge_checked"); if (rt.v.k == JVal::Obj && rs.v.k == JVal::Obj && !rt.v.o.empty()) probe("c20_object_merge"); if (tt.find('\\') != std::string::npos || st.find('\\') != std::string::npos) probe("c20_escaped_text"); }
      }
    } catch (Violation& v) {
      out.violated = true; out.vclass = v.cls; out.site = v.site; out.detail = v.detail + " [env " + std::to_string(e) + "]"; out.op = cur;
      return;
    }
    if (e == 0) out.faults_fired = simmem::g_ctr[simmem::C_ALLOC] - c0;
  }
  uint64_t h = 0x20;
  for (auto& s : obs[0]) { uint64_t x = fnv1a(s.data(), s.size()); out.op_hashes.push_back(x); h = mix64(h ^ x); }
  out.obs_hash = h; out.outcome_vec = h;
  for (size_t i = 0; i < obs[0].size(); i++)
    if (obs[0][i] != obs[1][i]) {
      out.violated = true; out.vclass = "env_dependence"; out.op = (int)i; out.site = "UpdateLazy:observation";
      out.detail = "UpdateLazy result depends on the contents/placement of fresh memory: " + model::printable(obs[0][i], 200) + " vs " + model::printable(obs[1][i], 200) + " for target=" + model::printable(p.ops[i].S(0), 200) + " source=" + model::printable(p.ops[i].S(1), 200);
      return;
    }
  if (g_verbose) for (size_t i = 0; i < obs[0].size(); i++) out.obs_text.push_back("UpdateLazy -> " + model::printable(obs[0][i], 300));
}
static JVal respell_related(Rng& r, const JVal& t, const model::GenOpts& go, int depth) {
  // a source related to the target: shares some keys (so merges recurse), adds some
  if (t.k != JVal::Obj || r.chance(1, 5)) return model::gen_value(r, go, depth);
  JVal s = JVal::obj();
  for (auto& kv : t.o) if (r.chance(1, 2)) s.o.emplace_back(kv.first, respell_related(r, kv.second, go, depth + 1));
  size_t extra = r.below(3);
  for (size_t i = 0; i < extra; i++) { std::string k = model::gen_key(r, go); if (s.find(k) < 0) s.o.emplace_back(k, model::gen_value(r, go, depth + 1)); }
  for (size_t i = s.o.size(); i > 1; i--) std::swap(s.o[i - 1], s.o[r.below(i)]);
  return s;
}
static void gen_c20(uint64_t seed, uint64_t run, const std::string& tier, Plan& p) {
  uint64_t rs = mix3(seed, prop_tag("C20"), run);
  Rng r(rs);
  p.prop = "C20"; p.seed = seed; p.run = run; p.tier = tier;
  p.knobs["envseed"] = (int64_t)(mix64(rs ^ 0x77) >> 1);
  model::GenOpts go; go.dup_keys = false; go.big_strings = r.chance(1, 3); go.key_alphabet = (int)r.range(2, 6); go.max_children = 5; go.max_depth = 3;
  go.wild_strings = r.chance(2, 3);
  size_t n = (size_t)r.range(1, tier == "thorough" ? 6 : 4);
  for (size_t i = 0; i < n; i++) {
    JVal t = model::gen_value(r, go);
    if (r.chance(1, 6)) { t = model::gen_mixed_key_object(r, go); if (r.chance(1, 3) && !t.o.empty()) t.o[r.below(t.o.size())].second = model::gen_mixed_key_object(r, go); }   // UpdateLazy indexes every target object by key
    if (t.k != JVal::Obj && r.chance(3, 4)) { JVal w = JVal::obj(); size_t m = r.below(5); for (size_t j = 0; j < m; j++) { std::string k = model::gen_key(r, go); if (w.find(k) < 0) w.o.emplace_back(k, model::gen_value(r, go, 1)); } t = w; }
    JVal s = respell_related(r, t, go, 1);
    if (r.chance(1, 2500)) {   // both sides are objects along one path for hundreds of levels (recursion depth of the merge), target-only members on the way
      size_t d = r.chance(1, 2) ? (size_t)r.range(1000, 1700) : (size_t)r.range(200, 1100);
      size_t every = (size_t)r.range(40, 400);
      t = JVal::obj(); t.o.emplace_back("x", JVal::uint(1)); t.o.emplace_back("keep", JVal::uint(2));
      s = JVal::obj(); s.o.emplace_back("x", JVal::uint(3)); s.o.emplace_back("new", JVal::uint(4));
      for (size_t lv = 0; lv < d; lv++) {
        JVal nt = JVal::obj(), ns = JVal::obj();
        if (lv % every == 1) nt.o.emplace_back("t" + std::to_string(lv), JVal::uint(lv));
        nt.o.emplace_back("a", std::move(t)); ns.o.emplace_back("a", std::move(s));
        if (lv % every == 2) ns.o.emplace_back("s" + std::to_string(lv), JVal::uint(lv));
        t = std::move(nt); s = std::move(ns);
      }
    }
    std::string tt, st;
    model::WriteOpts wo; wo.ws_rng = &r; wo.ws_max = r.chance(1, 4) ? 70 : 3; wo.escape_more = r.chance(1, 2);
    model::write(t, tt, wo);
    wo.escape_more = r.chance(1, 2);   // the same decoded key may be spelled differently on the two sides
    model::write(s, st, wo);
    p.ops.emplace_back(); Op& op = p.ops.back();
    op.kind = "UpdateLazy"; op.s.push_back(tt); op.s.push_back(st);
  }
}

// ------------------------------------------------------------------ C15
// Observations must be identical in every build flavour; the driver compares the digests.
static void exec_c15(const Plan& p, Outcome& out) {
  simmem::Env env = make_env((uint64_t)p.K("envseed", 1), 1);
  env.fill = simmem::F_ZERO;
  simmem::g_fatal_ctx.env_id = 0;
  uint64_t c0 = simmem::g_ctr[simmem::C_ALLOC];
  simmem::begin_run(env);
  int cur = -1;
  uint64_t h = 0x15;
  try {
    for (size_t i = 0; i < p.ops.size(); i++) {
      const Op& op = p.ops[i];
      cur = (int)i;
      simmem::set_op((int)i, 15);
      std::string ob;
      if (op.kind == "Parse") {
        const std::string& text = op.S(0);
        model::ParseOut ref = model::parse(text);
        CBuf tb(text, simmem::PL_END);
        DSim d;
        d.Parse(tb.data, text.size());
        tb.release();
        ob = d.HasParseError() ? "rej" : "acc";
        if (d.HasParseError()) {
          // code/offset may legitimately differ only when the first fault lies inside a string literal
          if (!(ref.ok ? false : ref.err_in_string)) ob += ":" + std::to_string((int)d.GetParseError()) + "@" + std::to_string(d.GetErrorOffset());
        } else {
          ob += walk_str(static_cast<const DNode<SimAlloc>&>(d));
          ob += "|" + d.Dump();
          // lookups through both FindMember overloads (InlinedMemcmpEq in static builds)
          if (d.IsObject()) for (auto it = d.MemberBegin(); it != d.MemberEnd(); ++it) {
            auto sv = it->name.GetStringView();
            CBuf kb(std::string(sv.data(), sv.size()), simmem::PL_END);
            ob += std::to_string(d.FindMember(kb.data, sv.size()) - d.MemberBegin()) + "," + std::to_string(d.FindMember(StringView(kb.data, sv.size())) - d.MemberBegin()) + ";";
            kb.free();
          }
          // the same lookups through the optional lookup map (its comparator is InlinedMemcmp in static builds, std::less in the dispatch build)
          if (d.IsObject() && d.Size() <= 64) {
            d.CreateMap(d.GetAllocator());
            ob += "M";
            for (auto it = d.MemberBegin(); it != d.MemberEnd(); ++it) { ob += std::to_string(d.FindMember(it->name.GetStringView()) - d.MemberBegin()); ob += ','; }
          }
        }
      } else if (op.kind == "Schema") {
        // ParseSchema is the one entry point that drives both whitespace skippers on one scanner
        CBuf ta(op.S(0), simmem::PL_END), tb(op.S(1), simmem::PL_END);
        DSim d;
        d.Parse(ta.data, op.S(0).size());
        ta.release();
        if (d.HasParseError()) ob = "base-rej";
        else {
          d.ParseSchema(tb.data, op.S(1).size());
          ob = "S" + std::to_string((int)d.GetParseError()) + "|" + d.Dump();
        }
        tb.release();
      } else if (op.kind == "OnDemand") {
        const std::string& text = op.S(0);
        model::ParseOut ref = model::parse(text);
        auto path = pspec_resolve(pspec_decode(op.S(1)), ref.ok ? ref.v : JVal::null());
        JsonPointer jp = to_json_pointer(path);
        CBuf tb(text, simmem::PL_END);
        StringView target;
        ParseResult pr = GetOnDemand(StringView(tb.data, text.size()), jp, target);
        bool instr = !ref.ok && ref.err_in_string;
        // error CLASS: the codes for a malformed string literal (unescaped control byte, bad escape, bad \u, bad UTF-8)
        // are one class - which of them is met first depends on the vector width; the on-demand scanner can reach
        // such a literal even when the reference parser's first fault lies elsewhere (it does not validate structure)
        int ec = (int)pr.Error();
        bool string_class = ec == kParseErrorUnEscaped || ec == kParseErrorEscapedFormat || ec == kParseErrorEscapedUnicode || ec == kParseErrorInvalidUTF8;
        if (pr.Error()) ob = instr ? "err" : (string_class ? std::string("errS") : "err" + std::to_string(ec));
        else ob = "ok" + std::to_string(target.data() - tb.data) + "+" + std::to_string(target.size());
        tb.free();
      } else if (op.kind == "UpdateLazy") {
        CBuf tb(op.S(0), simmem::PL_END), sb(op.S(1), simmem::PL_END);
        ob = UpdateLazy(StringView(tb.data, op.S(0).size()), StringView(sb.data, op.S(1).size()));
        if (memcmp(tb.data, op.S(0).data(), op.S(0).size()) != 0 || memcmp(sb.data, op.S(1).data(), op.S(1).size()) != 0) violate("model", "UpdateLazy:input_modified", "UpdateLazy wrote into the caller's text");
        tb.free(); sb.free();
      } else if (op.kind == "BuildDump") {
        JVal v = canon_decode(op.S(0));
        DSim d; BuildCtx bc; std::vector<char*> keep; bc.keep = &keep; bc.seed = 7; bc.str_mode = 0;
        build(static_cast<DNode<SimAlloc>&>(d), v, d.GetAllocator(), bc);
        WriteBuffer wb((size_t)op.A(0, 16));
        SonicError e = d.Serialize(wb);
        ob = "ser" + std::to_string((int)e) + (e ? std::string() : std::string(wb.ToString(), wb.Size()));
        for (char* k : keep) simmem::caller_free(k);
      } else continue;
      out.ops_executed++;
      uint64_t x = fnv1a(ob.data(), ob.size());
      out.op_hashes.push_back(x); h = mix64(h ^ x);
      if (g_verbose) out.obs_text.push_back(op.kind + " -> " + model::printable(ob, 600));
      drain_pending(op.kind + ":ledger");
    }
  } catch (Violation& v) {
    out.violated = true; out.vclass = v.cls; out.site = v.site; out.detail = v.detail; out.op = cur;
    return;
  }
  out.faults_fired = simmem::g_ctr[simmem::C_ALLOC] - c0;
  out.obs_hash = h; out.outcome_vec = h;
}
static void gen_c15(uint64_t seed, uint64_t run, const std::string& tier, Plan& p) {
  uint64_t rs = mix3(seed, prop_tag("C15"), run);
  Rng r(rs);
  p.prop = "C15"; p.seed = seed; p.run = run; p.tier = tier;
  p.knobs["envseed"] = (int64_t)(mix64(rs ^ 0x77) >> 1);
  model::GenOpts go; go.dup_keys = r.chance(1, 4); go.big_strings = true; go.max_str = (int)r.range(4, 70); go.key_alphabet = 5;
  if (r.chance(1, 2)) { static const int fl[] = {13, 15, 33, 40, 65, 70, 97, 130, 200, 225, 240, 255, 256, 300, 520}; go.family_len = fl[r.below(r.chance(1, 3) ? 15 : 9)]; }   // look-alike keys of one length
  size_t n = (size_t)r.range(2, tier == "thorough" ? 10 : 6);
  for (size_t i = 0; i < n; i++) {
    p.ops.emplace_back(); Op& op = p.ops.back();
    unsigned m = (unsigned)r.below(10);
    std::string pad(r.below(66), ' ');   // shifts everything relative to the 16/32/64-byte blocks
    if (m < 5) {
      op.kind = "Parse";
      std::string t = pad + gen_text(r, go, (int)r.range(1, 3), r.chance(1, 3) ? 70 : 3);
      if (r.chance(1, 3)) t = mutate_text(r, t);
      if (r.chance(1, 8)) { model::GenOpts g3 = go; g3.dup_keys = false; t = pad + model::write(model::gen_mixed_key_object(r, g3)); }   // keys a lookup map has to order
      if (r.chance(1, 150)) {   // containers beyond 2048 members / 4096 elements (bulk copies of the node stack)
        bool obj = r.chance(1, 2); size_t cnt = obj ? (size_t)r.range(2040, 2700) : (size_t)r.range(4090, 5200);
        t = pad + (obj ? "{" : "[");
        for (size_t k = 0; k < cnt; k++) { if (k) t += ","; if (obj) { t += "\"k"; t += std::to_string(k); t += "\":"; } t += std::to_string(k % 10); }
        t += obj ? "}" : "]";
      }
      if (r.chance(1, 6)) {  // numbers of every digit count
        t = pad + "[";
        size_t cnt = (size_t)r.range(1, 6);
        for (size_t k = 0; k < cnt; k++) {
          if (k) t += ",";
          if (r.chance(1, 2)) t += "-";
          size_t nd = (size_t)r.range(1, 25);
          for (size_t d = 0; d < nd; d++) t += (char)('0' + (d == 0 ? 1 + r.below(9) : r.below(10)));
          if (r.chance(1, 2)) { t += "."; size_t fd = (size_t)r.range(1, 25); for (size_t d = 0; d < fd; d++) t += (char)('0' + r.below(10)); }
          if (r.chance(1, 3)) { t += r.chance(1, 2) ? "e" : "E"; if (r.chance(1, 2)) t += r.chance(1, 2) ? "-" : "+"; t += std::to_string(r.below(320)); }
        }
        t += "]";
      }
      op.s.push_back(t);
    } else if (m < 7) {
      op.kind = "OnDemand";
      std::string t = pad + gen_text(r, go, (int)r.range(1, 3), r.chance(1, 3) ? 70 : 3);
      if (r.chance(1, 4)) t = mutate_text(r, t);
      else if (r.chance(1, 5)) t = garbage_after_primitive(r, t);
      op.s.push_back(t); op.s.push_back(gen_pspec(r, go, 3));
    } else if (m < 8) {
      op.kind = "UpdateLazy";
      model::GenOpts g2 = go; g2.dup_keys = false;
      JVal a; std::string ta = gen_text(r, g2, 2, 3, &a);
      if (r.chance(1, 3)) { a = model::gen_mixed_key_object(r, g2); ta = model::write(a); }
      JVal b = respell_related(r, a, g2, 1);
      std::string tb; model::WriteOpts wo; wo.ws_rng = &r; wo.ws_max = 3; wo.escape_more = true; model::write(b, tb, wo);
      op.s.push_back(ta); op.s.push_back(tb);
    } else if (m < 9 && r.chance(1, 2)) {
      op.kind = "Schema";
      model::GenOpts g2 = go; g2.dup_keys = false;
      JVal a; std::string ta = gen_text(r, g2, 2, 3, &a);
      JVal b = respell_related(r, a, g2, 1);
      std::string tb; model::WriteOpts wo; wo.ws_rng = &r; wo.ws_max = r.chance(1, 2) ? 70 : 4; wo.escape_more = r.chance(1, 2); model::write(b, tb, wo);
      op.s.push_back(ta); op.s.push_back(tb);
    } else {
      op.kind = "BuildDump";
      model::GenOpts g2 = go; g2.max_depth = 2;
      op.s.push_back(model::canon(model::gen_value(r, g2)));
      op.a.push_back((int64_t)r.below(300));
    }
  }
}

static const Profile kC11 = {"C11", gen_c11, exec_c11,
  "a run = 1..3 texts (valid or mutated, <=220/400 bytes) x 1..3 paths; for each, EVERY prefix length 0..len is placed (i) end-flush to a PROT_NONE page, (ii) start-flush after one, (iii) mid-page between JSON-looking hostile bytes and handed to GetOnDemand (plus Document::ParseOnDemand for every 4th prefix); evaluations counts runs, reach probe c11_cases counts prefix x placement executions; non-trivial = >=1 op executed with >=1 guarded placement; distinct = hash(plan shape, result vector)"};
static const Profile kC20 = {"C20", gen_c20, exec_c20,
  "a run = 1..6 pairs of valid duplicate-free texts (source derived from target: shared keys, new keys, same keys spelled with different escapes) given to UpdateLazy under 2 memory environments differing in fresh-memory fill, placement and realloc policy; non-trivial/distinct as for C12"};
static const Profile kC15 = {"C15", gen_c15, exec_c15,
  "a run = 2..10 SIMD-heavy ops (Parse of texts shifted by 0..65 bytes incl. numbers of every digit count, mixed-script keys looked up with and without the lookup map, containers of 2048+ members, GetOnDemand, UpdateLazy, ParseSchema, build+Serialize); the observation digest of every run is compared across build flavours by the driver; distinct = hash(plan shape, digest)"};
static ProfileReg r11(&kC11), r20(&kC20), r15(&kC15);
}  // namespace
