// C16 — the pool allocator hands out aligned, disjoint, stable blocks (DESIGN §3/C16).
// Histories of Malloc/Realloc/Clear/copy/move/destroy on MemoryPoolAllocator<SimBase, Policy>
// judged against a bump-allocator model; chunk allocation failure is the injected fault.
#include <memory>

#include "domlib.h"

namespace {
using namespace sim;
using namespace sonic_json;

constexpr int NA = 4;       // allocator-object slots
constexpr size_t kHdr = 24; // SONIC_ALIGN(sizeof(ChunkHeader))
constexpr size_t kShared = 32;

struct MChunk { size_t cap; size_t size; };
struct MBlock { char* p; size_t n; uint32_t tag; bool dead; size_t ext; };  // ext: bytes reserved in the chunk
struct MPool {   // one shared pool (possibly several allocator objects refer to it)
  std::vector<MChunk> chunks;  // head first
  std::vector<MBlock> blocks;  // handed out since the last Clear
  int refs = 0;
  char* last = nullptr; size_t last_aligned = 0;
  bool user_buffer = false;
  uint32_t next_tag = 1;
  uint32_t max_base_id = 0;   // newest base allocation the model knows about
};
struct MAlloc { int pool = -1; size_t policy_min = 0; };

static inline size_t al8(size_t n) { return (n + 7) & ~(size_t)7; }
// blocks of more than 1 MiB (the rare > 4 GiB histories) are painted and verified at both ends only
static const size_t kEdge = 4096, kBigBlock = 1u << 20;
static inline char pat(uint32_t tag, size_t i) { return (char)(tag * 131 + i * 7 + (i >> 8)); }
static void paint(char* p, size_t n, uint32_t tag) {
  if (n <= kBigBlock) { for (size_t i = 0; i < n; i++) p[i] = pat(tag, i); return; }
  for (size_t i = 0; i < kEdge; i++) { p[i] = pat(tag, i); p[n - 1 - i] = pat(tag, n - 1 - i); }
}
static bool painted(const char* p, size_t n, uint32_t tag, size_t& bad) {
  if (n <= kBigBlock) { for (size_t i = 0; i < n; i++) if (p[i] != pat(tag, i)) { bad = i; return false; } return true; }
  for (size_t i = 0; i < kEdge; i++) { if (p[i] != pat(tag, i)) { bad = i; return false; } if (p[n - 1 - i] != pat(tag, n - 1 - i)) { bad = n - 1 - i; return false; } }
  return true;
}

template <class Policy> struct PolicyModel;
template <> struct PolicyModel<SimpleChunkPolicy> {
  static size_t chunk(size_t& min, size_t need) { return min > need ? min : need; }
};
template <> struct PolicyModel<AdaptiveChunkPolicy> {
  static size_t chunk(size_t& min, size_t need) {
    const size_t MAXC = SONIC_ALLOCATOR_MAX_CHUNK_CAPACITY;
    if (min < need && min < MAXC) { size_t p = 1ULL << (64 - __builtin_clzll(need)); min = p < MAXC ? p : MAXC; }
    return min > need ? min : need;
  }
};

template <class Policy>
struct PoolExec {
  using PoolT = MemoryPoolAllocator<SimBase, Policy>;
  const Plan& plan;
  std::vector<uint64_t>& op_hashes;
  std::vector<std::string>* text;
  PoolT* obj[NA] = {nullptr, nullptr, nullptr, nullptr};
  MAlloc ma[NA];
  std::vector<MPool> pools;
  SimBase shared_base;
  std::vector<char*> keep;
  std::string ob, cur_kind;
  int cur_op = -1;
  uint64_t executed = 0, skipped = 0, outcome_vec = 0;

  PoolExec(const Plan& p, std::vector<uint64_t>& h, std::vector<std::string>* t) : plan(p), op_hashes(h), text(t) {}
  std::string site(const char* w) { return cur_kind + ":" + w; }

  void check_block_new(MPool& mp, char* p, size_t n, const char* what) {
    if (((uintptr_t)p & 7) != 0) violate("model", site("alignment"), std::string(what) + " returned a block that is not 8-byte aligned");
    // inside exactly one chunk the base allocator issued (or the user buffer)
    if (!mp.user_buffer || mp.chunks.size() > 1) {
      std::vector<simmem::Block> live; simmem::live_blocks(simmem::SIMBASE, live);
      bool inside = false;
      for (auto& b : live) if (p >= b.ptr && p + al8(n) <= b.ptr + b.size) inside = true;
      if (!inside && mp.user_buffer) { std::vector<simmem::Block> cl; simmem::live_blocks(simmem::CALLER, cl); for (auto& b : cl) if (p >= b.ptr && p + al8(n) <= b.ptr + b.size) inside = true; }
      if (!inside) violate("overlap", site("outside_chunk"), std::string(what) + " returned a block that does not lie wholly inside one chunk");
    }
    for (auto& b : mp.blocks) {
      if (p < b.p + b.ext && b.p < p + al8(n)) violate("overlap", site("overlap"), std::string(what) + " returned a block overlapping a block handed out earlier (since the last Clear)");
    }
  }
  void verify_contents() {
    for (auto& mp : pools) {
      if (mp.refs <= 0) continue;
      for (auto& b : mp.blocks) {
        size_t bad;
        if (!painted(b.p, b.n, b.tag, bad)) violate("model", site("contents"), "contents of a live block were disturbed by a later operation (offset " + std::to_string(bad) + " of " + std::to_string(b.n) + ")");
      }
    }
  }
  void check_counters(int a) {
    MPool& mp = pools[(size_t)ma[a].pool];
    size_t sz = 0, cap = 0;
    for (auto& c : mp.chunks) { sz += c.size; cap += c.cap; }
    if (obj[a]->Size() != sz) violate("model", site("size"), "Size() = " + std::to_string(obj[a]->Size()) + " but " + std::to_string(sz) + " bytes (8-aligned) were handed out since the last Clear");
    if (obj[a]->Capacity() != cap) violate("model", site("capacity"), "Capacity() = " + std::to_string(obj[a]->Capacity()) + " but the chunks obtained sum to " + std::to_string(cap));
    if (obj[a]->Shared() != (mp.refs > 1)) violate("model", site("shared"), "Shared() disagrees with the number of live copies");
    ob += "S" + std::to_string(sz) + "C" + std::to_string(cap);
  }
  void drop_ref(int a) {
    MPool& mp = pools[(size_t)ma[a].pool];
    mp.refs--;
    ma[a].pool = -1;
  }
  void destroy(int a) { if (obj[a]) { delete obj[a]; obj[a] = nullptr; if (ma[a].pool >= 0) drop_ref(a); } }

  // model of Malloc; returns whether a new chunk is needed
  bool need_chunk(MPool& mp, size_t asz) { return mp.chunks[0].size + asz > mp.chunks[0].cap; }
  // The statement does not forbid trying again after the base allocator refused a chunk. If a block comes back although the
  // injected failure fired, the chunk it lies in is taken from the ledger of base allocations (capacity = what was really
  // obtained minus the header) and every other clause - inside that chunk, disjoint, Size/Capacity - is judged as usual.
  // Chunk capacities are not a matter of the statement ("lies wholly inside one chunk", "Size/Capacity account for what was
  // handed out"): whenever a block lies in a base allocation the model has not seen yet, the model's newest chunk takes the
  // capacity that was REALLY obtained (base block size minus header) instead of the one predicted from the chunk policy.
  static uint32_t newest_base_id() {
    std::vector<simmem::Block> live; simmem::live_blocks(simmem::SIMBASE, live);
    uint32_t m = 0; for (auto& b : live) if (b.id > m) m = b.id;
    return m;
  }
  void adopt_actual_chunk(MPool& mp, char* p, size_t n, bool predicted) {
    std::vector<simmem::Block> live; simmem::live_blocks(simmem::SIMBASE, live);
    const simmem::Block* best = nullptr;
    for (auto& b : live) if (p >= b.ptr + kHdr && p + al8(n) <= b.ptr + b.size && (!best || b.id > best->id)) best = &b;
    if (!best || best->id <= mp.max_base_id) return;   // nothing new (or nowhere: check_block_new reports that)
    mp.max_base_id = best->id;
    size_t cap = best->size - kHdr;
    if (predicted) { if (mp.chunks[0].cap != cap) probe("chunk_capacity_differs_from_policy_model"); mp.chunks[0].cap = cap; }
    else { mp.chunks.insert(mp.chunks.begin(), MChunk{cap, 0}); probe("new_chunk_not_predicted_by_model"); }
  }
  size_t retried_chunk_cap(char* p, size_t n) {
    std::vector<simmem::Block> live; simmem::live_blocks(simmem::SIMBASE, live);
    const simmem::Block* best = nullptr;
    for (auto& b : live) if (p >= b.ptr + kHdr && p + al8(n) <= b.ptr + b.size && (!best || b.id > best->id)) best = &b;
    if (!best) violate("overlap", site("outside_chunk"), "after a refused chunk allocation a block was returned that lies in no chunk obtained from the base allocator");
    probe("allocation_succeeded_after_refused_chunk(retry)");
    return best->size - kHdr;
  }

  char* do_malloc(int a, size_t n, bool inject_fail, bool& failed) {
    MPool& mp = pools[(size_t)ma[a].pool];
    failed = false;
    size_t asz = al8(n);
    bool needc = n != 0 && need_chunk(mp, asz);
    size_t min_before = ma[a].policy_min;
    size_t newcap = 0;
    if (needc) newcap = PolicyModel<Policy>::chunk(ma[a].policy_min, asz);
    bool armed = false;
    if (inject_fail && needc) { simmem::arm_fail(simmem::SIMBASE, simmem::FK_MALLOC, 0); armed = true; }
    char* p = (char*)obj[a]->Malloc(n);
    bool fired = armed && simmem::disarm();
    (void)min_before;
    if (n == 0) { if (p) violate("model", site("zero"), "zero-size request returned a non-null block"); return nullptr; }
    if (fired) {
      probe("chunk_alloc_fail_fired");
      if (!p) { failed = true; return nullptr; }
      newcap = retried_chunk_cap(p, n);
    }
    if (!p) violate("model", site("null"), "Malloc returned null without an allocation failure");
    if (needc) { mp.chunks.insert(mp.chunks.begin(), MChunk{newcap, 0}); probe("new_chunk"); }
    adopt_actual_chunk(mp, p, n, needc);
    check_block_new(mp, p, n, "Malloc");
    mp.chunks[0].size += asz;
    mp.last = p; mp.last_aligned = asz;
    return p;
  }

  bool exec_op(const Op& op) {
    const std::string& k = op.kind;
    int a = (int)((uint64_t)op.A(0) % NA);
    if (k == "New") {
      destroy(a);
      static const size_t caps[] = {64, 100, 256, 1024, 4096, 65536, 8, 72, (size_t)9 << 30};
      size_t cs = caps[(uint64_t)op.A(1) % 9];
      if (cs > 65536 && !plan.K("huge", 0)) cs = 65536;
      int mode = (int)(op.A(2) % 4);
      MPool mp; mp.refs = 1;
      if (mode <= 1) {
        obj[a] = mode == 0 ? new PoolT(cs) : new PoolT(cs, &shared_base);
        mp.chunks.push_back(MChunk{0, 0});
      } else {
        size_t bsz = 56 + (size_t)(op.A(3) % 600);
        size_t mis = mode == 3 ? (size_t)(1 + op.A(3) % 7) : 0;
        if (bsz - (mis ? (8 - mis) : 0) < 56) return false;
        char* buf = simmem::caller_buf(std::string(bsz + 8, 'u').data(), bsz + 8, simmem::PL_START);  // 8-aligned start
        keep.push_back(buf);
        size_t usable = bsz - (mis ? (8 - mis) : 0);
        if (usable < 56) return false;
        obj[a] = new PoolT(buf + mis, bsz, cs, (op.A(3) & 1) ? &shared_base : nullptr);
        mp.chunks.push_back(MChunk{usable - kShared - kHdr, 0});
        mp.user_buffer = true;
        probe(mis ? "user_buffer_misaligned" : "user_buffer");
      }
      mp.max_base_id = newest_base_id();
      pools.push_back(mp);
      ma[a].pool = (int)pools.size() - 1; ma[a].policy_min = cs;
      ob = "new"; check_counters(a);
      return true;
    }
    if (k == "Destroy") { if (!obj[a]) return false; destroy(a); ob = "del"; return true; }
    int b = (int)((uint64_t)op.A(1) % NA);
    if (k == "CopyCtor" || k == "CopyAssign" || k == "MoveCtor" || k == "MoveAssign") {
      // a moved-from handle (ma[x].pool == -1 with obj[x] alive) may only be destroyed or assigned to (revived)
      if (!obj[b] || a == b || ma[b].pool < 0) return false;
      int pi = ma[b].pool;
      auto moved_from = [&](int x) { if (((uint64_t)op.A(2) & 1) == 0) { delete obj[x]; obj[x] = nullptr; } else probe("moved_from_handle_kept"); ma[x].pool = -1; };
      if (k == "CopyCtor") { destroy(a); obj[a] = new PoolT(*obj[b]); ma[a] = ma[b]; pools[(size_t)pi].refs++; }
      else if (k == "CopyAssign") { if (!obj[a]) return false; if (ma[a].pool < 0) probe("assign_into_moved_from_handle"); *obj[a] = *obj[b]; if (ma[a].pool >= 0) drop_ref(a); ma[a] = ma[b]; pools[(size_t)pi].refs++; }
      else if (k == "MoveCtor") { destroy(a); obj[a] = new PoolT(std::move(*obj[b])); ma[a] = ma[b]; moved_from(b); }
      else { if (!obj[a]) return false; if (ma[a].pool < 0) probe("assign_into_moved_from_handle"); *obj[a] = std::move(*obj[b]); if (ma[a].pool >= 0) drop_ref(a); ma[a] = ma[b]; moved_from(b); }
      if (k[0] == 'C' && !(*obj[a] == *obj[b])) violate("model", site("equal"), "a copy does not compare equal to its source");
      ob = "cp"; check_counters(a); probe("copy_or_move");
      return true;
    }
    if (!obj[a] || ma[a].pool < 0) return false;
    MPool& mp = pools[(size_t)ma[a].pool];
    if (k == "Malloc") {
      size_t n = (size_t)op.A(1);
      bool failed;
      char* p = do_malloc(a, n, op.fault == 1, failed);
      if (p) { MBlock mb{p, n, mp.next_tag++, false, al8(n)}; paint(p, n, mb.tag); pools[(size_t)ma[a].pool].blocks.push_back(mb); }
      ob = p ? "m1" : (failed ? "mF" : "m0");
      check_counters(a);
      if (failed) {  // next request must be served
        bool f2; char* q = do_malloc(a, n, false, f2);
        if (q) { MPool& mp2 = pools[(size_t)ma[a].pool]; MBlock mb{q, n, mp2.next_tag++, false, al8(n)}; paint(q, n, mb.tag); mp2.blocks.push_back(mb); }
        check_counters(a);
      }
      return true;
    }
    if (k == "Realloc") {
      if (mp.blocks.empty()) {
        // Realloc(nullptr, ...) behaves as Malloc
        size_t n = (size_t)op.A(2); bool failed;
        size_t asz = al8(n);
        bool needc = n != 0 && need_chunk(mp, asz);
        size_t newcap = needc ? PolicyModel<Policy>::chunk(ma[a].policy_min, asz) : 0;
        char* p = (char*)obj[a]->Realloc(nullptr, 0, n);
        (void)failed;
        if (n == 0) { if (p) violate("model", site("zero"), "zero-size request returned a non-null block"); ob = "r0"; return true; }
        if (!p) violate("model", site("null"), "Realloc(nullptr) returned null without an allocation failure");
        if (needc) mp.chunks.insert(mp.chunks.begin(), MChunk{newcap, 0});
        adopt_actual_chunk(mp, p, n, needc);
        check_block_new(mp, p, n, "Realloc(nullptr)");
        mp.chunks[0].size += asz; mp.last = p; mp.last_aligned = asz;
        MBlock mb{p, n, mp.next_tag++, false, al8(n)}; paint(p, n, mb.tag); mp.blocks.push_back(mb);
        ob = "rn"; check_counters(a); return true;
      }
      size_t bi = (size_t)((uint64_t)op.A(1) % mp.blocks.size());
      MBlock old = mp.blocks[bi];
      if (old.dead) return false;   // already superseded by an earlier Realloc
      size_t n = (size_t)op.A(2);
      size_t oa = al8(old.n), na = al8(n);
      bool is_last = (old.p == mp.last) && (mp.last_aligned == oa);
      bool room = mp.chunks[0].size + (na > oa ? na - oa : 0) <= mp.chunks[0].cap;
      bool expect_same = (n != 0) && (oa >= na);
      bool expect_inplace = (n != 0) && !expect_same && is_last && room;
      bool needc = (n != 0) && !expect_same && !expect_inplace && need_chunk(mp, na);
      size_t newcap = needc ? PolicyModel<Policy>::chunk(ma[a].policy_min, na) : 0;
      bool armed = false;
      if (op.fault == 1 && needc) { simmem::arm_fail(simmem::SIMBASE, simmem::FK_MALLOC, 0); armed = true; }
      char* p = (char*)obj[a]->Realloc(old.p, old.n, n);
      bool fired = armed && simmem::disarm();
      if (n == 0) { if (p) violate("model", site("zero"), "Realloc to size zero returned a non-null block"); ob = "r0"; check_counters(a); return true; }
      if (fired) {
        probe("chunk_alloc_fail_fired");
        if (!p) { ob = "rF"; check_counters(a); verify_contents(); return true; }
        newcap = retried_chunk_cap(p, n);
      }
      if (!p) violate("model", site("null"), "Realloc returned null without an allocation failure");
      size_t keepn = old.n < n ? old.n : n, bad;
      if (!painted(p, keepn, old.tag, bad)) violate("model", site("realloc_contents"), "Realloc result does not start with the old contents (first difference at offset " + std::to_string(bad) + ")");
      if (expect_same && p != old.p) {   // legal (the statement only promises the contents); account for it as a move
        needc = need_chunk(mp, na);
        newcap = needc ? PolicyModel<Policy>::chunk(ma[a].policy_min, na) : 0;
      }
      if (expect_same && p == old.p) {
        mp.blocks[bi].n = n; mp.blocks[bi].tag = mp.next_tag++; paint(p, n, mp.blocks[bi].tag);  // the caller now owns n bytes; the reserved extent stays
        ob = "rs";
      } else if (expect_inplace) {
        if (p != old.p) violate("model", site("inplace"), "Realloc of the most recent allocation with room left in the chunk did not grow in place");
        mp.chunks[0].size += na - oa; mp.last_aligned = na;
        mp.blocks[bi].n = n; mp.blocks[bi].ext = na; mp.blocks[bi].tag = mp.next_tag++; paint(p, n, mp.blocks[bi].tag);
        probe("realloc_inplace"); if (mp.chunks[0].size == mp.chunks[0].cap) probe("realloc_inplace_fills_chunk_exactly");
        ob = "ri";
      } else {
        if (p == old.p) violate("overlap", site("inplace_without_room"), "Realloc grew a block in place although it was not the most recent allocation or the chunk had no room");
        if (needc) { mp.chunks.insert(mp.chunks.begin(), MChunk{newcap, 0}); probe("new_chunk"); }
        adopt_actual_chunk(mp, p, n, needc);
        mp.blocks[bi].dead = true;  // the old block stays handed out (never reused) and must stay untouched
        check_block_new(mp, p, n, "Realloc");
        mp.chunks[0].size += na; mp.last = p; mp.last_aligned = na;
        MBlock mb{p, n, mp.next_tag++, false, na}; paint(p, n, mb.tag); mp.blocks.push_back(mb);
        probe("realloc_move"); if (is_last && !room) probe("realloc_last_block_no_room");
        ob = "rm";
      }
      check_counters(a);
      return true;
    }
    if (k == "Clear") {
      obj[a]->Clear();
      // every chunk but the oldest one is returned to the base allocator
      MChunk first = mp.chunks.back(); first.size = 0;
      mp.chunks.clear(); mp.chunks.push_back(first);
      mp.blocks.clear(); mp.last = nullptr; mp.last_aligned = 0;
      ob = "clr"; check_counters(a); probe("clear");
      return true;
    }
    return false;
  }

  size_t expected_simbase_blocks() {
    size_t n = 0;
    for (auto& mp : pools) if (mp.refs > 0) n += (mp.user_buffer ? 0 : 1) + (mp.chunks.size() - 1);
    return n;
  }

  void run() {
    simmem::set_op(-1, -1);
    for (size_t i = 0; i < plan.ops.size(); i++) {
      const Op& op = plan.ops[i];
      cur_op = (int)i; cur_kind = op.kind; ob.clear();
      simmem::set_op((int)i, 1);
      bool done = exec_op(op);
      drain_pending(site("ledger"));
      if (done) {
        executed++;
        verify_contents();
        size_t want = expected_simbase_blocks(), got = simmem::live_count(simmem::SIMBASE);
        if (got != want) violate("ledger", site("chunks"), "base allocator holds " + std::to_string(got) + " live chunk blocks, the model expects " + std::to_string(want) + " (chunks must be returned exactly once, when the last copy dies or on Clear)");
      } else { skipped++; ob = "skip"; }
      outcome_vec = mix64(outcome_vec ^ fnv1a(ob.data(), ob.size() < 3 ? ob.size() : 3));
      op_hashes.push_back(fnv1a(ob.data(), ob.size()));
      if (text) text->push_back(op.kind + " -> " + ob);
    }
    cur_op = (int)plan.ops.size(); cur_kind = "Teardown";
    simmem::set_op(cur_op, 2);
    for (int a = 0; a < NA; a++) destroy(a);
    drain_pending(site("ledger"));
    if (simmem::live_count(simmem::SIMBASE) != 0) violate("ledger", site("leak"), std::to_string(simmem::live_count(simmem::SIMBASE)) + " chunk block(s) not returned to the base allocator after the last copy was destroyed");
    for (char* p : keep) simmem::caller_free(p);
  }
};

template <class Policy>
static bool run_env(const Plan& p, int e, Outcome& out, std::vector<uint64_t>& hashes) {
  simmem::Env env = make_env((uint64_t)p.K("envseed", 1), e);
  simmem::g_fatal_ctx.env_id = e;
  simmem::begin_run(env);
  std::vector<std::string> text;
  auto* x = new PoolExec<Policy>(p, hashes, g_verbose ? &text : nullptr);
  try {
    x->run();
  } catch (Violation& v) {
    out.violated = true; out.vclass = v.cls; out.site = v.site; out.detail = v.detail + " [env " + std::to_string(e) + "]"; out.op = x->cur_op;
    out.obs_text = text;
    return false;
  }
  if (e == 0) { out.ops_executed = x->executed; out.ops_skipped = x->skipped; out.outcome_vec = x->outcome_vec; out.obs_text = text; }
  delete x;
  return true;
}

static void exec_pool(const Plan& p, Outcome& out) {
  std::vector<uint64_t> h[2];
  if (p.K("huge", 0) && !simmem::guarded()) return;   // > 4 GiB histories need the virtual-memory arena; the sanitizer flavour would really allocate them
  uint64_t c0 = simmem::g_ctr[simmem::C_ALLOC];
  for (int e = 0; e < 2; e++) {
    bool ok = p.K("adaptive", 0) ? run_env<AdaptiveChunkPolicy>(p, e, out, h[e]) : run_env<SimpleChunkPolicy>(p, e, out, h[e]);
    if (!ok) return;
    if (e == 0) out.faults_fired = simmem::g_ctr[simmem::C_ALLOC] - c0;
  }
  uint64_t hh = 0x1234;
  for (auto x : h[0]) hh = mix64(hh ^ x);
  out.obs_hash = hh; out.op_hashes = h[0];
  for (size_t i = 0; i < h[0].size() && i < h[1].size(); i++)
    if (h[0][i] != h[1][i]) {
      out.violated = true; out.vclass = "env_dependence"; out.op = (int)i; out.site = p.ops[i].kind + ":observation";
      out.detail = "pool observations (null/in-place/Size/Capacity) of op " + std::to_string(i) + " differ between two memory environments";
      return;
    }
}

static void gen_c16(uint64_t seed, uint64_t run, const std::string& tier, Plan& p) {
  uint64_t rs = mix3(seed, prop_tag("C16"), run);
  Rng r(rs);
  p.prop = "C16"; p.seed = seed; p.run = run; p.tier = tier;
  p.knobs["envseed"] = (int64_t)(mix64(rs ^ 0x77) >> 1);
  if (r.chance(1, 150)) {
    // sizes of 2^32 bytes and more: one 9 GiB chunk (virtual memory only), in-place growth across the 4 GiB line
    p.knobs["huge"] = 1; p.knobs["adaptive"] = 0;
    auto addh = [&](const char* k) -> Op& { p.ops.emplace_back(); p.ops.back().kind = k; return p.ops.back(); };
    { Op& o = addh("New"); o.a = {0, 8, 0, 0}; }
    size_t pre = (size_t)r.range(0, 3);
    for (size_t i = 0; i < pre; i++) { Op& o = addh("Malloc"); o.a = {0, (int64_t)r.range(1, 100)}; }
    { Op& o = addh("Malloc"); o.a = {0, (int64_t)r.range(1, 64)}; }
    static const int64_t big[] = {(int64_t)1 << 32, ((int64_t)1 << 32) + 8, ((int64_t)1 << 32) - 8, ((int64_t)1 << 32) + 100, (int64_t)5 << 30, ((int64_t)1 << 31) + 24, ((int64_t)3 << 30)};
    { Op& o = addh("Realloc"); o.a = {0, (int64_t)pre, big[r.below(7)] + (int64_t)r.below(64)}; }   // the most recent block
    size_t post = (size_t)r.range(1, 4);
    for (size_t i = 0; i < post; i++) { Op& o = addh(r.chance(2, 3) ? "Malloc" : "Realloc"); if (o.kind == "Malloc") o.a = {0, (int64_t)r.range(1, 200)}; else o.a = {0, 1000000 - 1, (int64_t)r.range(1, 300)}; }
    if (r.chance(1, 2)) { Op& o = addh("Clear"); o.a = {0}; Op& o2 = addh("Malloc"); o2.a = {0, (int64_t)r.range(1, 100)}; }
    return;
  }
  p.knobs["adaptive"] = r.chance(1, 3);
  int64_t capsel = (int64_t)r.below(8);
  auto add = [&](const char* k) -> Op& { p.ops.emplace_back(); p.ops.back().kind = k; return p.ops.back(); };
  auto size_near = [&](void) -> int64_t {
    static const int64_t base[] = {0, 1, 2, 7, 8, 9, 15, 16, 17, 24, 31, 32, 33, 40, 48, 56, 63, 64, 65, 72, 92, 100, 108, 120, 128, 248, 256, 264, 1000, 1016, 1024, 1032, 4088, 4096, 4104};
    if (r.chance(1, 12)) return (int64_t)r.range(60000, 70000);
    if (r.chance(1, 3)) return (int64_t)r.below(70);
    return base[r.below(sizeof(base) / sizeof(base[0]))];
  };
  { Op& o = add("New"); o.a = {0, capsel, (int64_t)r.below(r.chance(1, 3) ? 4 : 2), (int64_t)r.below(1000)}; }
  size_t n = (size_t)r.range(3, tier == "thorough" ? 70 : 45);
  for (size_t i = 0; i < n; i++) {
    unsigned m = (unsigned)r.below(40);
    int64_t a = r.chance(3, 4) ? 0 : (int64_t)r.below(NA);
    if (m < 16) { Op& o = add("Malloc"); o.a = {a, size_near()}; if (r.chance(1, 10)) o.fault = 1; }
    else if (m < 30) { Op& o = add("Realloc"); o.a = {a, (int64_t)(r.chance(1, 2) ? 1000000 - 1 : r.below(64)), size_near()}; if (r.chance(1, 10)) o.fault = 1; }
    else if (m < 32) { Op& o = add("Clear"); o.a = {a}; }
    else if (m < 34) { Op& o = add("New"); o.a = {(int64_t)r.below(NA), r.chance(2, 3) ? capsel : (int64_t)r.below(8), (int64_t)r.below(4), (int64_t)r.below(1000)}; }
    else if (m < 36) { Op& o = add("CopyCtor"); o.a = {(int64_t)r.below(NA), (int64_t)r.below(NA)}; }
    else if (m < 37) { Op& o = add("CopyAssign"); o.a = {(int64_t)r.below(NA), (int64_t)r.below(NA)}; }
    else if (m < 38) { Op& o = add("MoveCtor"); o.a = {(int64_t)r.below(NA), (int64_t)r.below(NA), (int64_t)r.below(2)}; }
    else if (m < 39) { Op& o = add("MoveAssign"); o.a = {(int64_t)r.below(NA), (int64_t)r.below(NA), (int64_t)r.below(2)}; }
    else { Op& o = add("Destroy"); o.a = {(int64_t)r.below(NA)}; }
  }
}

static const Profile kC16 = {"C16", gen_c16, exec_pool,
  "a run = one history (3..70 ops: New with chunk capacity in {8,64,72,100,256,1K,4K,64K} and default/supplied-base/user-buffer(aligned, misaligned) construction, Malloc/Realloc with sizes around 0, alignment, chunk capacity and multiples, Clear, copy/move construct/assign, Destroy; chunk allocation failure attached to some ops) on MemoryPoolAllocator<SimBase, Simple|Adaptive> under 2 memory environments; non-trivial = >=1 op executed and >=1 SimMem decision fired; distinct = hash(op kinds+faults, outcome vector)"};
static ProfileReg r16(&kC16);
}  // namespace
