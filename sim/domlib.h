// Shared helpers for profiles that drive the sonic-cpp DOM: walker (accessor API -> canonical
// text / JVal), builder (JVal -> mutation API), path-spec coding, violation exception.
#pragma once
#include <cstring>
#include <deque>
#include <string>
#include <vector>

#include "mem.h"
#include "model.h"
#include "plan.h"
#include "sonic/sonic.h"

namespace sim {

struct Violation {
  std::string cls, site, detail;
};
[[noreturn]] inline void violate(const char* cls, const std::string& site, const std::string& detail) {
  throw Violation{cls, site, detail};
}
inline void drain_pending(const std::string& site) {
  simmem::Pending p;
  if (simmem::take_pending(p)) violate(p.cls.c_str(), site + ":" + (p.detail.find("double") != std::string::npos ? "double_free" : p.detail.find("foreign") != std::string::npos ? "foreign_free" : "bad_free"), p.detail);
}

using model::JVal;

// ---- canonical value coding inside ops (canon text <-> JVal)
inline bool canon_parse(const std::string& s, size_t& i, JVal& v) {
  if (i >= s.size()) return false;
  char c = s[i++];
  auto num = [&](bool neg_ok, unsigned long long& u, bool& neg) {
    neg = false;
    if (neg_ok && i < s.size() && s[i] == '-') { neg = true; i++; }
    size_t st = i; u = 0;
    while (i < s.size() && s[i] >= '0' && s[i] <= '9') { u = u * 10 + (unsigned)(s[i] - '0'); i++; }
    return i > st;
  };
  unsigned long long u; bool neg;
  switch (c) {
    case 'n': v = JVal::null(); return true;
    case 't': v = JVal::boolean(true); return true;
    case 'f': v = JVal::boolean(false); return true;
    case 'u': if (!num(false, u, neg)) return false; v = JVal::uint(u); return true;
    case 'i': if (!num(true, u, neg)) return false; v = JVal(); v.k = JVal::Sint; v.i = (int64_t)(0 - u); if (!neg) v = JVal::uint(u); return true;
    case 'd': {
      if (i + 16 > s.size()) return false;
      uint64_t b = 0;
      for (int k = 0; k < 16; k++) { char h = s[i + k]; b = b * 16 + (uint64_t)(h >= 'a' ? h - 'a' + 10 : h - '0'); }
      i += 16; v = JVal::real_bits(b); return true;
    }
    case 's': {
      if (!num(false, u, neg) || i >= s.size() || s[i] != ':') return false;
      i++;
      if (i + u > s.size()) return false;
      v = JVal::str(s.substr(i, (size_t)u)); i += (size_t)u; return true;
    }
    case '[': {
      v = JVal::arr();
      if (i < s.size() && s[i] == ']') { i++; return true; }
      for (;;) {
        JVal e; if (!canon_parse(s, i, e)) return false;
        v.a.push_back(std::move(e));
        if (i >= s.size()) return false;
        if (s[i] == ',') { i++; continue; }
        if (s[i] == ']') { i++; return true; }
        return false;
      }
    }
    case '{': {
      v = JVal::obj();
      if (i < s.size() && s[i] == '}') { i++; return true; }
      for (;;) {
        JVal k, e;
        if (!canon_parse(s, i, k) || k.k != JVal::Str) return false;
        if (i >= s.size() || s[i] != '=') return false;
        i++;
        if (!canon_parse(s, i, e)) return false;
        v.o.emplace_back(std::move(k.s), std::move(e));
        if (i >= s.size()) return false;
        if (s[i] == ',') { i++; continue; }
        if (s[i] == '}') { i++; return true; }
        return false;
      }
    }
  }
  return false;
}
inline JVal canon_decode(const std::string& s) {
  JVal v; size_t i = 0;
  if (!canon_parse(s, i, v)) return JVal::null();
  return v;
}

// ---- path-spec coding for JSON pointers carried in ops
//  'k' <len>':'<bytes>   literal key          'K' <n>';'  existing key chosen modulo
//  'i' <n>';'            literal index        'I' <n>';'  index modulo (size+1)
struct PSpec { char t; std::string key; int64_t n; };
inline std::string pspec_encode(const std::vector<PSpec>& v) {
  std::string o;
  for (auto& e : v) {
    o += e.t;
    if (e.t == 'k') { o += std::to_string(e.key.size()); o += ':'; o += e.key; }
    else { o += std::to_string(e.n); o += ';'; }
  }
  return o;
}
inline std::vector<PSpec> pspec_decode(const std::string& s) {
  std::vector<PSpec> v; size_t i = 0;
  while (i < s.size()) {
    PSpec e; e.t = s[i++]; e.n = 0;
    bool neg = false;
    if (i < s.size() && s[i] == '-') { neg = true; i++; }
    int64_t n = 0; size_t st = i;
    while (i < s.size() && s[i] >= '0' && s[i] <= '9') { n = n * 10 + (s[i] - '0'); i++; }
    if (i == st || i >= s.size()) break;
    if (e.t == 'k') {
      if (s[i] != ':') break;
      i++;
      if (i + (size_t)n > s.size()) break;
      e.key = s.substr(i, (size_t)n); i += (size_t)n;
    } else {
      if (s[i] != ';') break;
      i++; e.n = neg ? -n : n;
    }
    v.push_back(e);
  }
  return v;
}
// resolve a path-spec against the model: produces concrete pointer elements
inline std::vector<model::PathElem> pspec_resolve(const std::vector<PSpec>& ps, const JVal& root) {
  std::vector<model::PathElem> out;
  const JVal* cur = &root;
  for (auto& e : ps) {
    model::PathElem pe;
    if (e.t == 'k') { pe.key = e.key; }
    else if (e.t == 'K') {
      if (cur && cur->k == JVal::Obj && !cur->o.empty()) pe.key = cur->o[(size_t)((uint64_t)e.n % cur->o.size())].first;
      else pe.key = "nokey";
    } else if (e.t == 'i') { pe.is_index = true; pe.index = e.n; }
    else { pe.is_index = true; pe.index = (cur && cur->k == JVal::Arr) ? (int64_t)((uint64_t)e.n % (cur->a.size() + 1)) : e.n % 3; }
    out.push_back(pe);
    if (cur) {
      std::vector<model::PathElem> one{pe};
      cur = model::pointer(*cur, one);
    }
  }
  return out;
}
inline sonic_json::JsonPointer to_json_pointer(const std::vector<model::PathElem>& p) {
  sonic_json::JsonPointer jp;
  for (auto& e : p) {
    if (e.is_index) jp /= sonic_json::JsonPointerNode((int)e.index);
    else jp /= sonic_json::JsonPointerNode(e.key);
  }
  return jp;
}

// ---- walker: read a node through the public accessor API
template <class N>
void walk(const N& n, std::string& out, int depth = 0) {
  if (depth > 4000) violate("model", "walk", "nesting deeper than anything the plan built");
  {  // the kind tests partition the nodes
    int kinds = (int)n.IsNull() + (int)n.IsBool() + (int)n.IsNumber() + (int)n.IsString() + (int)n.IsArray() + (int)n.IsObject() + (int)n.IsRaw();
    if (kinds != 1) violate("model", "walk", "a node answers true to " + std::to_string(kinds) + " of the kind tests IsNull/IsBool/IsNumber/IsString/IsArray/IsObject/IsRaw");
    if (n.IsContainer() != (n.IsArray() || n.IsObject())) violate("model", "walk", "IsContainer() disagrees with IsArray()/IsObject()");
    if (n.IsStringConst() && !n.IsString()) violate("model", "walk", "IsStringConst() on a node that is not a string");
    if ((n.IsTrue() || n.IsFalse()) != n.IsBool()) violate("model", "walk", "IsTrue/IsFalse disagree with IsBool");
    if ((n.IsDouble() || n.IsUint64() || n.IsInt64()) != n.IsNumber()) violate("model", "walk", "IsDouble/IsUint64/IsInt64 disagree with IsNumber");
  }
  if (n.IsNull()) { out += 'n'; return; }
  if (n.IsBool()) {
    bool v = n.GetBool();
    if (v != n.IsTrue() || v == n.IsFalse()) violate("model", "walk", "IsTrue/IsFalse/GetBool disagree");
    out += v ? 't' : 'f'; return;
  }
  if (n.IsNumber()) {
    if (n.IsDouble()) { double d = n.GetDouble(); uint64_t u; memcpy(&u, &d, 8); out += 'd'; model::put_hex16(out, u); if (n.IsUint64() || n.IsInt64()) violate("model", "walk", "a double node claims to be an integer"); }
    else if (n.IsUint64()) {
      uint64_t u = n.GetUint64();
      out += 'u'; model::put_u64(out, u);
      if (n.IsInt64() != (u <= (uint64_t)INT64_MAX) || (n.IsInt64() && n.GetInt64() != (int64_t)u) || n.GetDouble() != (double)u) violate("model", "walk", "integer getters disagree for an unsigned node");
    }
    else if (n.IsInt64()) {
      int64_t i = n.GetInt64();
      out += 'i'; model::put_i64(out, i);
      if (i >= 0 || n.GetDouble() != (double)i) violate("model", "walk", "integer getters disagree for a negative node");
    }
    else out += "?num";
    return;
  }
  if (n.IsString()) {
    sonic_json::StringView sv = n.GetStringView();
    if (sv.size() != n.Size()) violate("model", "walk", "string Size() != view size");
    if (n.Empty() != (sv.size() == 0)) violate("model", "walk", "string Empty() wrong");
    if (sv.size() <= 32) { std::string cp = n.GetString(); if (cp.size() != sv.size() || memcmp(cp.data(), sv.data(), sv.size()) != 0) violate("model", "walk", "GetString() differs from GetStringView()"); }
    out += 's'; model::put_u64(out, sv.size()); out += ':'; out.append(sv.data(), sv.size()); return;
  }
  if (n.IsArray()) {
    size_t sz = n.Size();
    if (sz > (1u << 20)) violate("model", "walk", "absurd array size");
    if (n.Empty() != (sz == 0)) violate("model", "walk", "array Empty() wrong");
    if (n.Capacity() < sz) violate("model", "walk", "array Capacity() < Size()");
    if ((size_t)(n.End() - n.Begin()) != sz) violate("model", "walk", "End()-Begin() != Size()");
    if ((sz && (const void*)&*n.CBegin() != (const void*)&*n.Begin()) || (size_t)(n.CEnd() - n.CBegin()) != sz) violate("model", "walk", "CBegin()/CEnd() disagree with Begin()/End()");
    out += '[';
    size_t i = 0;
    for (auto it = n.Begin(); it != n.End(); ++it, ++i) {
      if (i) out += ',';
      if (&n[i] != &*it) violate("model", "walk", "operator[](idx) != iterator element");
      walk(*it, out, depth + 1);
    }
    if (sz && &n.Back() != &n[sz - 1]) violate("model", "walk", "Back() is not the last element");
    out += ']'; return;
  }
  if (n.IsObject()) {
    size_t sz = n.Size();
    if (sz > (1u << 20)) violate("model", "walk", "absurd object size");
    if (n.Empty() != (sz == 0)) violate("model", "walk", "object Empty() wrong");
    if (n.Capacity() < sz) violate("model", "walk", "object Capacity() < Size()");
    if ((size_t)(n.MemberEnd() - n.MemberBegin()) != sz) violate("model", "walk", "MemberEnd()-MemberBegin() != Size()");
    if ((sz && (const void*)&*n.CMemberBegin() != (const void*)&*n.MemberBegin()) || (size_t)(n.CMemberEnd() - n.CMemberBegin()) != sz) violate("model", "walk", "CMemberBegin()/CMemberEnd() disagree with MemberBegin()/MemberEnd()");
    out += '{';
    size_t i = 0;
    for (auto it = n.MemberBegin(); it != n.MemberEnd(); ++it, ++i) {
      if (i) out += ',';
      if (!it->name.IsString()) { out += "?key"; } else walk(it->name, out, depth + 1);
      out += '=';
      walk(it->value, out, depth + 1);
    }
    out += '}'; return;
  }
  if (n.IsRaw()) { out += "R"; auto r = n.GetRaw(); out.append(r.data(), r.size()); return; }
  out += "?type";
}
// a deep copy shares no owned memory with its source (C13): child arrays are distinct blocks, every string the
// copy owns has its own bytes; only strings that are const views on both sides may alias caller memory
template <class S, class D>
void check_copy_independent(const S& src, const D& dst, bool copy_str, int depth = 0) {
  if (depth > 4000) return;
  if (src.IsString() && dst.IsString()) {
    bool sc = src.IsStringConst(), dc = dst.IsStringConst();
    if (copy_str && dc) violate("model", "copy:const_kept", "CopyFrom(copyString=true) left a const (not owned) string in the copy");
    if (!copy_str && sc != dc) violate("model", "copy:constness", "CopyFrom(copyString=false) changed the ownership kind of a string (source const=" + std::to_string(sc) + ", copy const=" + std::to_string(dc) + ")");
    const void* a = src.GetStringView().data(); const void* b = dst.GetStringView().data();
    if (!dc && a == b && src.Size() > 0) violate("model", "copy:shared_string", "a string owned by the copy has the same bytes address as the source's string");
    if (dc && !copy_str && a != b) violate("model", "copy:const_moved", "a const string view changed its address in the copy");
    return;
  }
  if (src.IsArray() && dst.IsArray() && src.Size() == dst.Size()) {
    if (src.Size() && (const void*)&*src.Begin() == (const void*)&*dst.Begin()) violate("model", "copy:shared_children", "copy and source array share one element block");
    auto a = src.Begin(); auto b = dst.Begin();
    for (; a != src.End(); ++a, ++b) check_copy_independent(*a, *b, copy_str, depth + 1);
    return;
  }
  if (src.IsObject() && dst.IsObject() && src.Size() == dst.Size()) {
    if (src.Size() && (const void*)&*src.MemberBegin() == (const void*)&*dst.MemberBegin()) violate("model", "copy:shared_children", "copy and source object share one member block");
    auto a = src.MemberBegin(); auto b = dst.MemberBegin();
    for (; a != src.MemberEnd(); ++a, ++b) { check_copy_independent(a->name, b->name, copy_str, depth + 1); check_copy_independent(a->value, b->value, copy_str, depth + 1); }
    return;
  }
}
template <class N>
std::string walk_str(const N& n) { std::string s; walk(n, s); return s; }
template <class N>
JVal to_jval(const N& n) { return canon_decode(walk_str(n)); }

// ---- builder: JVal -> node through the mutation API
struct BuildCtx {
  uint64_t seed = 0;       // decides copy-vs-const per string (plan-level, same in every env)
  uint32_t ord = 0;
  int str_mode = 2;        // 0 = always copy, 1 = always const, 2 = mixed
  int reserve_mode = 0;    // 0 none, 1 exact reserve first, 2 over-reserve
  std::vector<char*>* keep = nullptr;   // caller buffers that must outlive the document
  bool want_copy() {
    if (str_mode == 0) return true;
    if (str_mode == 1) return false;
    return (mix64(seed ^ (0x5151ULL + ord++)) & 1) != 0;
  }
  // const (non-copied) strings are views into caller memory; some views share one buffer (a shorter string that
  // is a prefix of an earlier, longer one starts at the same address)
  std::vector<std::pair<char*, std::string>>* shared = nullptr;
  const char* konst(const std::string& s) {
    if (s.empty() && (mix64(seed ^ (0x7171ULL + ord)) & 3) == 0) return nullptr;   // the empty string as a view without an address: {nullptr, 0}
    if (shared && !s.empty()) {
      uint64_t h = mix64(seed ^ (0x9191ULL + ord));
      if (h & 1) for (auto& e : *shared) if (e.second.size() >= s.size() && e.second.compare(0, s.size(), s) == 0) return e.first;
    }
    char* p = simmem::caller_buf(s.data(), s.size() ? s.size() : 1, simmem::PL_AUTO);
    keep->push_back(p);
    if (shared && shared->size() < 64) shared->push_back({p, s});
    return p;
  }
};
template <class N, class A>
void build(N& dst, const JVal& v, A& alloc, BuildCtx& bc) {
  using sonic_json::StringView;
  switch (v.k) {
    case JVal::Null: dst.SetNull(); break;
    case JVal::False: dst.SetBool(false); break;
    case JVal::True: dst.SetBool(true); break;
    case JVal::Uint: dst.SetUint64(v.u); break;
    case JVal::Sint: dst.SetInt64(v.i); break;
    case JVal::Real: dst.SetDouble(v.dbl()); break;
    case JVal::Str:
      if (bc.want_copy()) {
        char* p = simmem::caller_buf(v.s.data(), v.s.size() ? v.s.size() : 1, simmem::PL_AUTO);
        dst.SetString(p, v.s.size(), alloc);
        simmem::caller_release(p);
      } else {
        dst.SetString(bc.konst(v.s), v.s.size());
      }
      break;
    case JVal::Arr:
      dst.SetArray();
      if (bc.reserve_mode == 1) dst.Reserve(v.a.size(), alloc);
      else if (bc.reserve_mode == 2) dst.Reserve(v.a.size() + 3, alloc);
      for (auto& e : v.a) { N tmp; build(tmp, e, alloc, bc); dst.PushBack(std::move(tmp), alloc); }
      break;
    case JVal::Obj:
      dst.SetObject();
      if (bc.reserve_mode == 1) dst.MemberReserve(v.o.size(), alloc);
      else if (bc.reserve_mode == 2) dst.MemberReserve(v.o.size() + 3, alloc);
      for (auto& kv : v.o) {
        N tmp; build(tmp, kv.second, alloc, bc);
        if (bc.want_copy()) {
          char* p = simmem::caller_buf(kv.first.data(), kv.first.size() ? kv.first.size() : 1, simmem::PL_AUTO);
          dst.AddMember(StringView(p, kv.first.size()), std::move(tmp), alloc, true);
          simmem::caller_release(p);
        } else {
          dst.AddMember(StringView(bc.konst(kv.first), kv.first.size()), std::move(tmp), alloc, false);
        }
      }
      break;
  }
}

// caller buffer holding exactly n bytes (n may be 0) at the requested placement
struct CBuf {
  char* base = nullptr;
  char* data = nullptr;
  size_t n = 0;
  CBuf() {}
  CBuf(const std::string& s, simmem::Place pl = simmem::PL_AUTO) { init(s.data(), s.size(), pl); }
  void init(const char* d, size_t len, simmem::Place pl) {
    n = len;
    if (len == 0) {
      base = simmem::caller_buf("x", 1, pl);
      data = (pl == simmem::PL_START) ? base : base + 1;
      if (!simmem::guarded()) data = base;  // sanitizer mode: 1-byte block, len 0
    } else {
      base = simmem::caller_buf(d, len, pl);
      data = base;
    }
  }
  void release() { if (base) simmem::caller_release(base); base = nullptr; }
  void free() { if (base) simmem::caller_free(base); base = nullptr; }
};

// environment derivation shared by profiles
inline simmem::Env make_env(uint64_t plan_seed, int which) {
  simmem::Env e;
  uint64_t h = mix64(plan_seed ^ (0xE0E0ULL + (uint64_t)which * 977));
  e.seed = h;
  if (which == 0) {
    static const uint8_t fills[] = {simmem::F_FAKENODE, simmem::F_FAKENODE, simmem::F_NOISE, simmem::F_FF, simmem::F_QUOTE, simmem::F_BSLASH, simmem::F_ZERO};
    e.fill = fills[h % 7];
    e.w_end = 6; e.w_start = 1; e.w_mid = 1;
    e.hostile = (h >> 8) & 1;
    e.realloc_inplace = ((h >> 9) & 3) == 0;
    e.free_protect = ((h >> 11) & 3) != 0;
    e.reuse_lifo = ((h >> 13) & 3) == 0;
  } else {
    static const uint8_t fills[] = {simmem::F_ZERO, simmem::F_NOISE, simmem::F_FF, simmem::F_BSLASH, simmem::F_QUOTE};
    e.fill = fills[h % 5];
    e.w_end = 1; e.w_start = 2; e.w_mid = 4;
    e.hostile = 1;
    e.realloc_inplace = 1;
    e.free_protect = 0;
    e.reuse_lifo = ((h >> 13) & 1);
  }
  return e;
}

}  // namespace sim

extern "C" int sonic_verif_tight_growth();
namespace sim { extern int g_tight_growth; extern uint64_t g_tight_hits; }
