// Plans: histories as data (DESIGN §2.4). A plan is the unit of replay and shrinking.
#pragma once
#include <cstdint>
#include <map>
#include <string>
#include <vector>

#include "model.h"

namespace sim {

struct Op {
  std::string kind;            // op name (profile-specific vocabulary)
  std::vector<int64_t> a;      // integer arguments (slot refs, sizes, indices, bit patterns)
  std::vector<std::string> s;  // byte-string arguments (texts, keys, paths)
  int64_t fault = 0;           // attached fault (profile-specific code; 0 = none)
  int64_t A(size_t i, int64_t d = 0) const { return i < a.size() ? a[i] : d; }
  const std::string& S(size_t i) const { static const std::string e; return i < s.size() ? s[i] : e; }
};

struct Plan {
  std::string prop;
  uint64_t seed = 0;     // VERIF_SEED of the batch
  uint64_t run = 0;      // run index inside the batch
  std::string tier = "quick";
  std::map<std::string, int64_t> knobs;
  std::vector<Op> ops;
  int64_t K(const char* k, int64_t d = 0) const { auto it = knobs.find(k); return it == knobs.end() ? d : it->second; }
};

std::string plan_to_json(const Plan& p);
bool plan_from_json(const std::string& text, Plan& p, std::string& err);
bool plan_load(const std::string& path, Plan& p, std::string& err);
bool plan_load_seq(const std::string& path, std::vector<Plan>& out, std::string& err);
bool plan_save(const std::string& path, const Plan& p);
uint64_t plan_shape_hash(const Plan& p);  // op kinds + fault codes (not arguments)

// Result of executing a plan
struct Outcome {
  bool violated = false;
  std::string vclass;   // memfault | ledger | model | env_dependence | contract | overlap | race | cross_config | progress
  std::string site;     // op kind + short site descriptor (used to keep shrinking on one violation)
  int op = -1;
  std::string detail;
  uint64_t obs_hash = 0;
  std::vector<uint64_t> op_hashes;   // per-op observation digests (env A)
  std::vector<std::string> known;    // known-finding signatures met (not violations)
  uint64_t ops_executed = 0, ops_skipped = 0;
  uint64_t faults_fired = 0;         // fault/choice events that fired in this run
  uint64_t outcome_vec = 0;          // digest of per-op outcome classes
  std::vector<std::string> obs_text; // only when verbose
};

// Reach probes / counters shared by all profiles (per process)
struct Stats {
  std::map<std::string, uint64_t> probe;       // named reach probes (hit counts)
  std::map<std::string, uint64_t> configured;  // fault kinds configured
  std::map<std::string, uint64_t> fired;       // fault kinds fired (profile-level)
  uint64_t runs = 0, ops = 0, skipped = 0, nontrivial = 0;
};
extern Stats g_stats;
extern bool g_verbose;
extern std::vector<std::string> g_known;   // known-finding signatures passed by the driver
bool known_listed(const char* sig);
inline void probe(const char* name, uint64_t n = 1) { g_stats.probe[name] += n; }

// Profile interface
struct Profile {
  const char* prop;
  // generate the plan of run `run` of batch `seed`
  void (*gen)(uint64_t seed, uint64_t run, const std::string& tier, Plan& out);
  // execute it (all environments) and judge
  void (*exec)(const Plan& p, Outcome& out);
  const char* rule;   // what "non-trivial" / "distinct" mean for the evidence
};
const Profile* find_profile(const std::string& prop);
void register_profile(const Profile* p);
struct ProfileReg { explicit ProfileReg(const Profile* p) { register_profile(p); } };

// JSON string escaping helper for output lines
std::string jstr(const std::string& s);

}  // namespace sim
