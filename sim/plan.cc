#include "plan.h"

#include <cstdio>
#include <cstring>
#include <fstream>
#include <sstream>

namespace sim {

Stats g_stats;
bool g_verbose = false;
std::vector<std::string> g_known;
bool known_listed(const char* sig) {
  for (auto& k : g_known) if (k == sig) return true;
  return false;
}

static std::vector<const Profile*>& profiles() { static std::vector<const Profile*> v; return v; }
void register_profile(const Profile* p) { profiles().push_back(p); }
const Profile* find_profile(const std::string& prop) {
  for (auto* p : profiles()) if (prop == p->prop) return p;
  return nullptr;
}

std::string jstr(const std::string& s) {
  std::string o = "\"";
  for (unsigned char c : s) {
    if (c == '"') o += "\\\"";
    else if (c == '\\') o += "\\\\";
    else if (c < 0x20 || c >= 0x7f) { char b[8]; snprintf(b, sizeof b, "\\u%04x", c); o += b; }
    else o += (char)c;
  }
  return o + "\"";
}

// strings are stored as {"t":"printable text"} when they are plain printable ASCII, else {"h":"hex"}
static bool plain(const std::string& s) {
  for (unsigned char c : s) if (c < 0x20 || c >= 0x7f) return false;
  return true;
}
std::string plan_to_json(const Plan& p) {
  std::ostringstream o;
  o << "{\"prop\":" << jstr(p.prop) << ",\"seed\":" << p.seed << ",\"run\":" << p.run << ",\"tier\":" << jstr(p.tier) << ",\n \"knobs\":{";
  bool first = true;
  for (auto& kv : p.knobs) { if (!first) o << ","; first = false; o << jstr(kv.first) << ":" << kv.second; }
  o << "},\n \"ops\":[";
  for (size_t i = 0; i < p.ops.size(); i++) {
    const Op& op = p.ops[i];
    o << (i ? ",\n  " : "\n  ") << "{\"k\":" << jstr(op.kind) << ",\"a\":[";
    for (size_t j = 0; j < op.a.size(); j++) { if (j) o << ","; o << op.a[j]; }
    o << "],\"s\":[";
    for (size_t j = 0; j < op.s.size(); j++) {
      if (j) o << ",";
      if (plain(op.s[j])) o << "{\"t\":" << jstr(op.s[j]) << "}";
      else o << "{\"h\":\"" << model::hex(op.s[j]) << "\"}";
    }
    o << "],\"f\":" << op.fault << "}";
  }
  o << "\n ]}\n";
  return o.str();
}

static int64_t num_of(const model::JVal& v) {
  if (v.k == model::JVal::Uint) return (int64_t)v.u;
  if (v.k == model::JVal::Sint) return v.i;
  if (v.k == model::JVal::Real) return (int64_t)v.dbl();
  return 0;
}
static bool plan_from_jval(const model::JVal& r, Plan& p, std::string& err);
bool plan_from_json(const std::string& text, Plan& p, std::string& err) {
  model::ParseOut po = model::parse(text);
  if (!po.ok) { err = "plan file is not valid JSON at " + std::to_string(po.err_pos); return false; }
  return plan_from_jval(po.v, p, err);
}
// a replay file is either one plan or {"seq":[plan,...]}: a history of runs executed in one process
bool plan_load_seq(const std::string& path, std::vector<Plan>& out, std::string& err) {
  std::ifstream f(path, std::ios::binary);
  if (!f) { err = "cannot open " + path; return false; }
  std::stringstream ss; ss << f.rdbuf();
  model::ParseOut po = model::parse(ss.str());
  if (!po.ok) { err = "replay file is not valid JSON at " + std::to_string(po.err_pos); return false; }
  for (auto& kv : po.v.o) if (kv.first == "seq") {
    for (auto& e : kv.second.a) { Plan p; if (!plan_from_jval(e, p, err)) return false; out.push_back(std::move(p)); }
    return !out.empty();
  }
  Plan p;
  if (!plan_from_jval(po.v, p, err)) return false;
  out.push_back(std::move(p));
  return true;
}
static bool plan_from_jval(const model::JVal& r, Plan& p, std::string& err) {
  if (r.k != model::JVal::Obj) { err = "plan root not object"; return false; }
  p = Plan();
  for (auto& kv : r.o) {
    if (kv.first == "prop") p.prop = kv.second.s;
    else if (kv.first == "seed") p.seed = kv.second.k == model::JVal::Uint ? kv.second.u : (uint64_t)num_of(kv.second);
    else if (kv.first == "run") p.run = kv.second.k == model::JVal::Uint ? kv.second.u : (uint64_t)num_of(kv.second);
    else if (kv.first == "tier") p.tier = kv.second.s;
    else if (kv.first == "knobs") for (auto& k : kv.second.o) p.knobs[k.first] = num_of(k.second);
    else if (kv.first == "ops") {
      for (auto& jo : kv.second.a) {
        Op op;
        for (auto& f : jo.o) {
          if (f.first == "k") op.kind = f.second.s;
          else if (f.first == "a") for (auto& x : f.second.a) op.a.push_back(num_of(x));
          else if (f.first == "s") {
            for (auto& x : f.second.a) {
              std::string sv;
              for (auto& g : x.o) { if (g.first == "t") sv = g.second.s; else if (g.first == "h") sv = model::unhex(g.second.s); }
              op.s.push_back(sv);
            }
          } else if (f.first == "f") op.fault = num_of(f.second);
        }
        p.ops.push_back(std::move(op));
      }
    }
  }
  if (p.prop.empty()) { err = "plan has no prop"; return false; }
  return true;
}
bool plan_load(const std::string& path, Plan& p, std::string& err) {
  std::ifstream f(path, std::ios::binary);
  if (!f) { err = "cannot open " + path; return false; }
  std::stringstream ss; ss << f.rdbuf();
  return plan_from_json(ss.str(), p, err);
}
bool plan_save(const std::string& path, const Plan& p) {
  std::ofstream f(path, std::ios::binary);
  if (!f) return false;
  f << plan_to_json(p);
  return (bool)f;
}
uint64_t plan_shape_hash(const Plan& p) {
  uint64_t h = prop_tag(p.prop.c_str());
  for (auto& op : p.ops) { h = fnv1a(op.kind.data(), op.kind.size(), h); h = mix64(h ^ (uint64_t)op.fault); }
  return h;
}

}  // namespace sim
