// SimSched — seeded scheduler for real threads, exactly one runnable at a time (DESIGN §2.3).
// sched.cc is compiled WITHOUT -fsanitize=thread and hands the token over with relaxed atomics
// and raw futex calls, so ThreadSanitizer sees no happens-before edge created by the simulator.
#pragma once
#include <cstdint>

namespace simsched {
enum Mode { UNIFORM = 0, PCT = 1 };
struct Config {
  int nthreads = 2;
  uint64_t seed = 1;
  int mode = UNIFORM;
  int pct_depth = 2;       // number of priority change points
  int pct_horizon = 300;   // change points are drawn from [0, horizon)
  uint64_t max_steps = 20000;
  // fault: one thread is stalled (descheduled) for stall_len scheduler steps, starting at the first
  // yield at or after step stall_at that lies inside a critical section (tags 3/4) or, with
  // stall_any, at any yield point. ~0 = no stall. If nothing else can run the stall ends early.
  uint64_t stall_at = ~0ull;
  uint64_t stall_len = 0;
  int stall_any = 0;
};
struct Stats {
  uint64_t steps, trace_hash, spin_hits, lock_attempts, preempt_in_cs, switches;
  uint64_t stalls, stalls_in_cs, stall_steps, stalls_cut_short, max_spin_run;
  bool step_bound_hit;
};
void configure(const Config& c);          // main thread, before workers start
void thread_begin(int tid);               // worker: blocks until it is scheduled for the first time
void thread_end(int tid);                 // worker: marks itself finished and hands the token on
void yield(int tag);                      // worker: yield point
void run();                               // main thread: start scheduling once all workers have registered; returns when all ended
bool active_here();                       // true if the calling thread is a scheduled worker
Stats stats();
extern void (*on_step_bound)();           // called (in a worker) when max_steps is exceeded
}  // namespace simsched
