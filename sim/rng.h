// Seed handling: one integer decides everything.
//  * Rng: stream generator used ONLY while generating a plan (plan = data).
//  * hdec(): hash-derived environment decision used while EXECUTING a plan, so that
//    deleting an op during shrinking, or one allocation more/less in another build
//    flavour, never re-randomises the rest of the run.
#pragma once
#include <cstdint>
#include <cstddef>

namespace sim {

static inline uint64_t mix64(uint64_t x) {
  x += 0x9e3779b97f4a7c15ULL;
  x = (x ^ (x >> 30)) * 0xbf58476d1ce4e5b9ULL;
  x = (x ^ (x >> 27)) * 0x94d049bb133111ebULL;
  return x ^ (x >> 31);
}
static inline uint64_t mix3(uint64_t a, uint64_t b, uint64_t c) {
  return mix64(mix64(mix64(a) ^ b) ^ (c * 0xd6e8feb86659fd93ULL));
}
static inline uint64_t hdec(uint64_t seed, uint64_t op, uint64_t site, uint64_t ord) {
  return mix64(mix64(mix64(mix64(seed) ^ op) ^ (site << 32)) ^ ord);
}
static inline uint64_t fnv1a(const void* p, size_t n, uint64_t h = 0xcbf29ce484222325ULL) {
  const unsigned char* c = (const unsigned char*)p;
  for (size_t i = 0; i < n; i++) { h ^= c[i]; h *= 0x100000001b3ULL; }
  return h;
}
static inline uint64_t prop_tag(const char* s) {
  uint64_t h = 0xcbf29ce484222325ULL;
  while (*s) { h ^= (unsigned char)*s++; h *= 0x100000001b3ULL; }
  return h;
}

struct Rng {
  uint64_t s[4];
  explicit Rng(uint64_t seed = 1) {
    uint64_t z = seed;
    for (int i = 0; i < 4; i++) { z = mix64(z + i); s[i] = z | 1; }
  }
  static inline uint64_t rotl(uint64_t x, int k) { return (x << k) | (x >> (64 - k)); }
  uint64_t next() {
    const uint64_t r = rotl(s[1] * 5, 7) * 9, t = s[1] << 17;
    s[2] ^= s[0]; s[3] ^= s[1]; s[1] ^= s[2]; s[0] ^= s[3]; s[2] ^= t; s[3] = rotl(s[3], 45);
    return r;
  }
  uint64_t below(uint64_t n) { return n ? next() % n : 0; }
  int64_t range(int64_t lo, int64_t hi) { return lo + (int64_t)below((uint64_t)(hi - lo + 1)); }
  bool chance(unsigned num, unsigned den) { return below(den) < num; }
  template <class T, size_t N> const T& pick(const T (&a)[N]) { return a[below(N)]; }
};

}  // namespace sim
