// Kernel-level fault enumeration: C09 (Quote) and C14 (InlinedMemcmp / InlinedMemcmpEq and
// key lookup) against guard pages at every distance (DESIGN §3).
#include "domlib.h"

namespace {
using namespace sim;
using namespace sonic_json;
using model::JVal;

using NSim = DNode<SimAlloc>;
using DSim = GenericDocument<NSim>;

typedef char* (*QuoteFn)(const char*, size_t, char*);
struct QuoteImpl { const char* name; QuoteFn fn; };
static char* quote_default(const char* s, size_t n, char* d) { return internal::Quote(s, n, d); }
#if defined(SONIC_DYNAMIC_DISPATCH)
__attribute__((target("pclmul,sse4.2"))) static char* quote_sse(const char* s, size_t n, char* d) { return internal::sse::Quote(s, n, d); }
__attribute__((target("avx2"))) static char* quote_avx2(const char* s, size_t n, char* d) { return internal::avx2::Quote(s, n, d); }
static const QuoteImpl kQuotes[] = {{"dispatch", quote_default}, {"sse_clone", quote_sse}, {"avx2_clone", quote_avx2}};
#else
static const QuoteImpl kQuotes[] = {{"static", quote_default}};
#endif

// scanner derived from the statement
static bool scan_quoted(const unsigned char* out, size_t outn, const unsigned char* src, size_t n, std::string& why) {
  size_t i = 0;
  auto hexv = [](unsigned char c) { return c >= '0' && c <= '9' ? c - '0' : c >= 'a' && c <= 'f' ? c - 'a' + 10 : c >= 'A' && c <= 'F' ? c - 'A' + 10 : -1; };
  if (outn < 2 || out[0] != '"') { why = "no opening quote"; return false; }
  i = 1;
  for (size_t k = 0; k < n; k++) {
    unsigned char c = src[k];
    if (i >= outn) { why = "output ends early at source byte " + std::to_string(k); return false; }
    bool special = c == '"' || c == '\\' || c < 0x20;
    if (!special) {
      if (out[i] != c) { why = "byte " + std::to_string(k) + " (0x" + model::hex(std::string(1, (char)c)) + ") not copied verbatim"; return false; }
      i++; continue;
    }
    if (out[i] != '\\' || i + 1 >= outn) { why = "byte " + std::to_string(k) + " (0x" + model::hex(std::string(1, (char)c)) + ") not escaped"; return false; }
    unsigned char e = out[i + 1];
    int dec = -1; size_t len = 2;
    switch (e) {
      case '"': dec = '"'; break; case '\\': dec = '\\'; break; case '/': dec = '/'; break; case 'b': dec = 8; break; case 'f': dec = 12; break;
      case 'n': dec = 10; break; case 'r': dec = 13; break; case 't': dec = 9; break;
      case 'u':
        if (i + 6 <= outn) { int a = hexv(out[i + 2]), b = hexv(out[i + 3]), c2 = hexv(out[i + 4]), d = hexv(out[i + 5]); if (a >= 0 && b >= 0 && c2 >= 0 && d >= 0) { dec = (a << 12) | (b << 8) | (c2 << 4) | d; len = 6; } }
        break;
    }
    if (dec != (int)c) { why = "escape for byte " + std::to_string(k) + " (0x" + model::hex(std::string(1, (char)c)) + ") does not decode to it"; return false; }
    i += len;
  }
  if (i + 1 != outn || out[i] != '"') { why = "no closing quote right after the last byte (emitted " + std::to_string(outn) + ", consumed " + std::to_string(i) + ")"; return false; }
  return true;
}

static uint64_t g_quote_cases = 0, g_cmp_cases = 0;

static void fill_content(std::string& s, size_t n, uint64_t h, int variant) {
  s.resize(n);
  Rng r(h);
  unsigned mode = (unsigned)(variant % 6);
  for (size_t i = 0; i < n; i++) {
    unsigned char c;
    switch (mode) {
      case 0: c = (unsigned char)('a' + r.below(26)); break;
      case 1: c = (unsigned char)r.below(256); break;
      case 2: c = r.chance(1, 5) ? (unsigned char)"\"\\\n\x01\x1f"[r.below(5)] : (unsigned char)('A' + r.below(26)); break;
      case 3: c = (unsigned char)r.below(0x20); break;                      // everything expands 6x / 2x
      case 4: c = r.chance(1, 2) ? '"' : '\\'; break;
      default: c = (unsigned char)(0x80 + r.below(0x80)); break;
    }
    s[i] = (char)c;
  }
}

static void exec_c09(const Plan& p, Outcome& out) {
  simmem::Env env = make_env((uint64_t)p.K("envseed", 1), 0);
  env.fill = simmem::F_BSLASH;
  simmem::g_fatal_ctx.env_id = 0;
  uint64_t c0 = simmem::g_ctr[simmem::C_ALLOC];
  simmem::begin_run(env);
  int cur = -1;
  uint64_t h = 0x9;
  try {
    for (size_t oi = 0; oi < p.ops.size(); oi++) {
      const Op& op = p.ops[oi];
      cur = (int)oi;
      simmem::set_op((int)oi, 9);
      if (op.kind == "Quote") {
        size_t n = (size_t)op.A(0);
        int64_t dist_only = op.A(1, -1);
        uint64_t cseed = (uint64_t)op.A(2);
        int64_t special_pos = op.A(3, -1);
        std::vector<size_t> dists;
        if (dist_only >= 0) dists.push_back((size_t)dist_only);
        else if (!simmem::guarded()) { dists = {0, 1}; }
        else { for (size_t d = 0; d <= 70; d++) dists.push_back(d); for (size_t d : {96u, 128u, 200u, 1000u, 3000u}) dists.push_back(d); }
        size_t dcap = 6 * n + 32 + 3;
        for (size_t d : dists) {
          if (n + d > 4096) continue;
          // string = first n bytes of a block whose last byte abuts the guard page; d trailing bytes follow it
          std::string content;
          fill_content(content, n, mix64(cseed ^ n), (int)(cseed % 6));
          if (special_pos >= 0 && n) { static const char sp[] = {'"', '\\', 1, 0x1f, '\n', 0x7f, (char)0x80, (char)0xff, '\t', 0}; content.assign(n, 'a'); content[(size_t)special_pos % n] = sp[(cseed >> 8) % 10]; }
          std::string block = content + std::string(d, '.');
          CBuf src; src.init(block.data(), block.size(), simmem::PL_END);
          CBuf dst; dst.init(std::string(dcap, '#').data(), dcap, simmem::PL_END);
          for (auto& q : kQuotes) {
            std::string outs[2];
            for (int tail = 0; tail < 2; tail++) {
              // benign vs hostile bytes right after the string (and before the page end)
              for (size_t k = 0; k < d; k++) src.data[n + k] = tail == 0 ? '.' : "\"\\\x01\""[k & 3];
              memset(dst.data, '#', dcap);
              out.detail = std::string(q.name) + " n=" + std::to_string(n) + " dist=" + std::to_string(d) + " tail=" + std::to_string(tail);
              char* e = q.fn(src.data, n, dst.data);
              size_t outn = (size_t)(e - dst.data);
              g_quote_cases++;
              if (outn > 6 * n + 2) violate("contract", "Quote:length_bound", "emitted " + std::to_string(outn) + " bytes for a " + std::to_string(n) + "-byte string (bound 6n+2)");
              std::string why;
              if (!scan_quoted((const unsigned char*)dst.data, outn, (const unsigned char*)content.data(), n, why))
                violate("model", "Quote:exact", why + "; input " + model::printable(content, 80) + " output " + model::printable(std::string(dst.data, outn), 160));
              outs[tail].assign(dst.data, outn);
              if (d == 0) break;
            }
            if (d && outs[0] != outs[1]) violate("env_dependence", "Quote:neighbour", "bytes beyond the string influenced the output");
            h = mix64(h ^ fnv1a(outs[0].data(), outs[0].size()));
          }
          src.free(); dst.free();
        }
      } else if (op.kind == "SerializeStr") {
        // the same through the public API: a document of strings at page ends into a tight buffer
        size_t cnt = (size_t)op.A(0) % 16 + 1;
        uint64_t cseed = (uint64_t)op.A(1);
        bool nested = (op.A(2) >> 1) & 1;   // the serializer pre-reserves only for top-level children
        std::vector<CBuf> bufs; std::vector<std::string> strs;
        DSim d; d.SetArray();
        NSim inner; inner.SetArray();
        for (size_t k = 0; k < cnt; k++) {
          uint64_t hk = mix64(cseed + k * 7919);
          size_t len;
          switch (hk % 5) { case 0: case 1: len = (hk >> 8) % 4; break; case 2: { static const size_t L[] = {14, 15, 16, 17, 18, 30, 31, 32, 33, 34}; len = L[(hk >> 8) % 10]; break; } default: len = (hk >> 8) % 100; }
          std::string s; fill_content(s, len, mix64(cseed ^ k), (int)((hk >> 20) % 6));
          CBuf b(s, simmem::PL_END); bufs.push_back(b); strs.push_back(s);
          NSim nd; nd.SetString(b.data, s.size());
          if (nested) inner.PushBack(std::move(nd), d.GetAllocator()); else d.PushBack(std::move(nd), d.GetAllocator());
        }
        if (nested) d.PushBack(std::move(inner), d.GetAllocator());
        g_tight_growth = (int)(op.A(2) & 1);
        WriteBuffer wb((size_t)op.A(3) % 64);
        SonicError e = d.Serialize(wb);
        g_tight_growth = 0;
        if (e != kErrorNone) violate("model", "SerializeStr:error", "serialising strings failed");
        std::string got(wb.ToString(), wb.Size());
        model::ParseOut ref = model::parse(got);
        JVal want = JVal::arr(); for (auto& s : strs) want.a.push_back(JVal::str(s));
        if (nested) { JVal outer = JVal::arr(); outer.a.push_back(want); want = outer; }
        if (!ref.ok || !model::equal_struct(ref.v, want)) violate("model", "SerializeStr:roundtrip", "array of strings does not read back: " + model::printable(got, 200));
        for (auto& b : bufs) b.free();
        h = mix64(h ^ fnv1a(got.data(), got.size()));
      } else if (op.kind == "SerializeGiant") {
        // one string whose 6n+35 reservation does not fit in 32 bits (n >= 715827877) and whose quoted form does not fit in an
        // int (> 2 GiB: the first half is control bytes, six output bytes each): every size on the way must be 64-bit.
        // ~3.3 GiB resident for a few seconds, once per batch and flavour; skipped without guard pages (sanitizer flavours)
        if (!simmem::guarded()) { out.ops_executed++; out.op_hashes.push_back(h); continue; }
        size_t n = (size_t)715827877 + (size_t)op.A(0) % 4096;
        size_t nc = (size_t)360000000 + (size_t)op.A(0) % 7;   // control bytes
        char* src = simmem::caller_raw(n);
        memset(src, 1, nc); memset(src + nc, 'a', n - nc);
        src[n - 1] = '\n';
        {
          DSim d; d.SetString(src, n);
          WriteBuffer wb;
          out.detail = "string of " + std::to_string(n) + " bytes, " + std::to_string(nc) + " of them control bytes";
          SonicError e = d.Serialize(wb);
          if (e != kErrorNone) violate("model", "SerializeGiant:error", "serialising a " + std::to_string(n) + "-byte string failed");
          const char* o = wb.ToString();
          size_t want_size = 1 + 6 * nc + (n - nc - 1) + 2 + 1;
          bool ok = wb.Size() == want_size && o[0] == '"' && o[want_size - 1] == '"' && memcmp(o + 1, "\\u0001", 6) == 0 &&
                    memcmp(o + 1, o + 7, 6 * (nc - 1)) == 0 &&                       // the escape repeats with period 6
                    memcmp(o + 1 + 6 * nc, src + nc, n - nc - 1) == 0 && o[want_size - 3] == '\\' && o[want_size - 2] == 'n';
          if (!ok) violate("model", "SerializeGiant:bytes", "output of a " + std::to_string(n) + "-byte string is wrong (size " + std::to_string(wb.Size()) + ", expected " + std::to_string(want_size) + ")");
        }
        simmem::caller_free(src);
        probe("c09_string_whose_reservation_exceeds_32_bits_and_output_exceeds_2GiB");
        h = mix64(h ^ n);
      } else if (op.kind == "SerializeFit") {
        // growth boundaries of the write buffer at every scale, without the tight-growth hook: the buffer starts with capacity
        // cap0, is filled to a fraction of it by plain strings, then one string of control bytes (6 output bytes each, so the
        // 6n+35 reservation is really used) whose reservation ends within +-48 bytes of cap, 1.5*cap or 2*cap
        static const size_t scales[] = {64, 256, 1000, 4096, 65536, 300000, 1u << 20, (1u << 20) + 4096, 2621440, 5u << 20};
        size_t cap0 = scales[(size_t)op.A(0) % 10] + (size_t)(op.A(4) % 17);
        static const int fills[] = {0, 50, 90};
        int fill = fills[(size_t)op.A(1) % 3];
        int boundary = (int)((size_t)op.A(2) % 3);   // 0: cap, 1: 1.5 cap, 2: 2 cap
        long delta = (long)(op.A(3) % 97) - 48;
        DSim d; d.SetArray();
        std::vector<CBuf> bufs; JVal want = JVal::arr();
        size_t sz = 1;   // '['
        std::string plain(cap0 >= 8000 ? 1000 : cap0 / 12 + 1, 'a');
        while (fill && sz + plain.size() + 3 + 6 * plain.size() + 35 < cap0 && sz < cap0 * (size_t)fill / 100) {
          CBuf b(plain, simmem::PL_END); bufs.push_back(b);
          NSim nd; nd.SetString(b.data, plain.size()); d.PushBack(std::move(nd), d.GetAllocator());
          want.a.push_back(JVal::str(plain)); sz += plain.size() + 3;
        }
        size_t B = boundary == 0 ? cap0 : boundary == 1 ? cap0 + cap0 / 2 : 2 * cap0;
        long L = ((long)B + delta - (long)sz - 35) / 6;
        if (L > 0) {
          std::string ctl((size_t)L, '\x01');
          for (size_t q = 0; q < ctl.size(); q += 7) ctl[q] = (char)(1 + (q / 7) % 7);   // \u0001..\u0007: six bytes each
          CBuf b(ctl, simmem::PL_END); bufs.push_back(b);
          NSim nd; nd.SetString(b.data, ctl.size()); d.PushBack(std::move(nd), d.GetAllocator());
          want.a.push_back(JVal::str(ctl));
        }
        out.detail = "cap0=" + std::to_string(cap0) + " fill=" + std::to_string(fill) + "% boundary=" + (boundary == 0 ? "cap" : boundary == 1 ? "1.5cap" : "2cap") + " delta=" + std::to_string(delta) + " control_bytes=" + std::to_string(L > 0 ? L : 0);
        WriteBuffer wb(cap0);
        SonicError e = d.Serialize(wb);
        if (e != kErrorNone) violate("model", "SerializeFit:error", "serialising strings failed");
        std::string got(wb.ToString(), wb.Size());
        std::string exp = "[";   // reference bytes, written directly (the generic reference writer is slow on megabytes of escapes)
        for (size_t q = 0; q < want.a.size(); q++) {
          if (q) exp += ',';
          const std::string& str = want.a[q].s;
          exp += '"';
          if (!str.empty() && str[0] == 'a') exp += str;
          else for (char ch : str) { exp += "\\u000"; exp += (char)('0' + ch); }
          exp += '"';
        }
        exp += ']';
        if (got != exp) { size_t q = 0; while (q < got.size() && q < exp.size() && got[q] == exp[q]) q++; violate("model", "SerializeFit:bytes", "output differs from the reference writer at offset " + std::to_string(q) + " (got " + std::to_string(got.size()) + " bytes, expected " + std::to_string(exp.size()) + ")"); }
        for (auto& b : bufs) b.free();
        probe(cap0 >= (1u << 20) ? "c09_growth_boundary_at_1MiB_and_more" : "c09_growth_boundary_small");
        h = mix64(h ^ fnv1a(got.data(), got.size()));
      }
      out.ops_executed++;
      out.op_hashes.push_back(h);
    }
  } catch (Violation& v) {
    out.violated = true; out.vclass = v.cls; out.site = v.site; out.detail = v.detail + " [" + out.detail + "]"; out.op = cur;
    g_tight_growth = 0;
    return;
  }
  out.detail.clear();
  out.faults_fired = simmem::g_ctr[simmem::C_ALLOC] - c0;
  out.obs_hash = h; out.outcome_vec = h;
  g_stats.probe["c09_quote_calls(length x distance x tail x kernel)"] = g_quote_cases;
}
static void gen_c09(uint64_t seed, uint64_t run, const std::string& tier, Plan& p) {
  uint64_t rs = mix3(seed, prop_tag("C09"), run);
  Rng r(rs);
  p.prop = "C09"; p.seed = seed; p.run = run; p.tier = tier;
  p.knobs["envseed"] = (int64_t)(mix64(rs ^ 0x77) >> 1);
  // enumeration: run index walks the length grid 0..160; the seed only picks contents
  size_t n = (size_t)(run % (tier == "thorough" ? 321 : 161));   // thorough: up to 10 AVX2 blocks
  { p.ops.emplace_back(); Op& op = p.ops.back(); op.kind = "Quote"; op.a = {(int64_t)n, -1, (int64_t)(r.next() >> 1), -1}; }
  if (n && n <= 70) { p.ops.emplace_back(); Op& op = p.ops.back(); op.kind = "Quote"; op.a = {(int64_t)n, -1, (int64_t)(r.next() >> 1), (int64_t)((run / (tier == "thorough" ? 321 : 161)) % n)}; }
  for (int k = 0; k < 2; k++) { p.ops.emplace_back(); Op& op = p.ops.back(); op.kind = "SerializeStr"; op.a = {(int64_t)r.below(16), (int64_t)(r.next() >> 1), (int64_t)r.below(4), (int64_t)r.below(64)}; }
  if (run == 97) { p.ops.emplace_back(); Op& op = p.ops.back(); op.kind = "SerializeGiant"; op.a = {(int64_t)r.below(4096)}; }   // once per batch
  if (r.chance(1, 6)) {   // write-buffer growth boundaries: small scales often, 1 MiB and more rarely (megabytes of output)
    p.ops.emplace_back(); Op& op = p.ops.back(); op.kind = "SerializeFit";
    op.a = {(int64_t)(r.chance(1, 12) ? 6 + r.below(4) : r.below(6)), (int64_t)r.below(3), (int64_t)r.below(3), (int64_t)r.below(97), (int64_t)r.below(17)};
  }
}

// ------------------------------------------------------------------ C14
typedef bool (*EqFn)(const void*, const void*, size_t);
typedef int (*CmpFn)(const void*, const void*, size_t);
struct CmpImpl { const char* name; EqFn eq; CmpFn cmp; };
#if defined(SONIC_DYNAMIC_DISPATCH)
__attribute__((target("pclmul,sse4.2"))) static bool eq_sse(const void* a, const void* b, size_t n) { return internal::sse::InlinedMemcmpEq((const char*)a, (const char*)b, n); }
__attribute__((target("pclmul,sse4.2"))) static int cmp_sse(const void* a, const void* b, size_t n) { return internal::sse::InlinedMemcmp((const char*)a, (const char*)b, n); }
__attribute__((target("avx2"))) static bool eq_avx2(const void* a, const void* b, size_t n) { return internal::avx2::InlinedMemcmpEq((const char*)a, (const char*)b, n); }
__attribute__((target("avx2"))) static int cmp_avx2(const void* a, const void* b, size_t n) { return internal::avx2::InlinedMemcmp((const char*)a, (const char*)b, n); }
static const CmpImpl kCmps[] = {{"sse_clone", eq_sse, cmp_sse}, {"avx2_clone", eq_avx2, cmp_avx2}};
#else
static bool eq_st(const void* a, const void* b, size_t n) { return internal::InlinedMemcmpEq((const char*)a, (const char*)b, n); }
static int cmp_st(const void* a, const void* b, size_t n) { return internal::InlinedMemcmp((const char*)a, (const char*)b, n); }
static const CmpImpl kCmps[] = {{"static", eq_st, cmp_st}};
#endif
static int sgn(int x) { return x < 0 ? -1 : x > 0 ? 1 : 0; }

static void exec_c14(const Plan& p, Outcome& out) {
  simmem::Env env = make_env((uint64_t)p.K("envseed", 1), 0);
  simmem::g_fatal_ctx.env_id = 0;
  uint64_t c0 = simmem::g_ctr[simmem::C_ALLOC];
  simmem::begin_run(env);
  int cur = -1;
  uint64_t h = 0x14;
  try {
    for (size_t oi = 0; oi < p.ops.size(); oi++) {
      const Op& op = p.ops[oi];
      cur = (int)oi;
      simmem::set_op((int)oi, 14);
      if (op.kind == "Memcmp") {
        size_t n = (size_t)op.A(0);
        uint64_t cseed = (uint64_t)op.A(1);
        int64_t da_only = op.A(2, -1), db_only = op.A(3, -1);
        std::vector<size_t> D;
        if (!simmem::guarded()) D = {0};
        else if (n > 300) D = {0, 1, 17, 31, 32, 500};   // long operands: fewer placements, every 16-byte window gets a mismatch
        else { for (size_t d = 0; d <= 40; d++) D.push_back(d); D.push_back(64); D.push_back(500); }
        std::string base; fill_content(base, n, cseed, 1);
        // mismatch positions: none, first, last, around vector boundaries, a few random
        std::vector<long> mm = {-1};
        if (n && n <= 40) { for (long q = 0; q < (long)n; q++) mm.push_back(q); }   // short operands: every mismatch position
        else if (n) { mm.push_back(0); mm.push_back((long)n - 1); for (long q : {15L, 16L, 17L, 31L, 32L, 33L, 63L, 64L, 65L, 95L, 96L, 97L, 127L, 128L}) if (q < (long)n) mm.push_back(q); Rng r(cseed); for (int k = 0; k < 6; k++) mm.push_back((long)r.below(n));
          if (n > 130) for (size_t w = 0; w * 16 < n; w++) { size_t q = w * 16 + (size_t)((cseed >> 20) + w * 7) % 16; if (q < n) mm.push_back((long)q); } }
        for (size_t da : D) {
          if (da_only >= 0 && (size_t)da_only != da) continue;
          CBuf A; A.init(std::string(n + da, '.').data(), n + da, simmem::PL_END);
          if (n) memcpy(A.data, base.data(), n);
          for (size_t db : D) {
            if (db_only >= 0 && (size_t)db_only != db) continue;
            if (da_only < 0 && da > 8 && db > 8 && ((da + db + n) % 3) != 0) continue;   // thin out the far-from-page interior
            CBuf B; B.init(std::string(n + db, '.').data(), n + db, simmem::PL_END);
            for (long m : mm) {
              if (n) memcpy(B.data, base.data(), n);
              int delta = (int)((cseed >> 7) % 3) - 1; if (delta == 0) delta = 1;
              if (m >= 0) { if (((cseed >> 11) + (uint64_t)m) % 3 == 0) B.data[m] = (char)(B.data[m] ^ 0x80); else B.data[m] = (char)(B.data[m] + delta); }   // +-1 or an ASCII/non-ASCII pair
              for (int tail = 0; tail < 2; tail++) {
                // bytes after the operands: equal on both sides vs different
                for (size_t k = 0; k < da; k++) A.data[n + k] = 'x';
                for (size_t k = 0; k < db; k++) B.data[n + k] = tail == 0 ? 'x' : (char)('y' + (k & 1));
                int ref = n ? memcmp(A.data, B.data, n) : 0;
                for (auto& c : kCmps) {
                  out.detail = std::string(c.name) + " n=" + std::to_string(n) + " da=" + std::to_string(da) + " db=" + std::to_string(db) + " mismatch_at=" + std::to_string(m) + " tail=" + std::to_string(tail);
                  bool eq = c.eq(A.data, B.data, n);
                  int cm = c.cmp(A.data, B.data, n);
                  g_cmp_cases++;
                  if (eq != (ref == 0)) violate("model", "InlinedMemcmpEq:result", std::string("returned ") + (eq ? "equal" : "different") + " but memcmp says " + std::to_string(ref));
                  if (sgn(cm) != sgn(ref)) violate("model", "InlinedMemcmp:sign", "returned " + std::to_string(cm) + " but memcmp gives " + std::to_string(ref));
                  bool eq2 = c.eq(B.data, A.data, n); int cm2 = c.cmp(B.data, A.data, n);
                  if (eq2 != eq || sgn(cm2) != -sgn(cm)) violate("model", "InlinedMemcmp:antisymmetric", "swapping the operands does not mirror the result");
                }
                if (da == 0 && db == 0) break;
              }
            }
            B.free();
          }
          A.free();
        }
        // two mismatches of opposite sign (the earlier one decides): kernels that fold several vectors into one test
        if (n >= 34) {
          Rng r2(cseed ^ 0x2d2d);
          CBuf A; A.init(base.data(), n, simmem::PL_END);
          CBuf B; B.init(base.data(), n, simmem::PL_END);
          for (int k = 0; k < 24; k++) {
            memcpy(B.data, base.data(), n);
            size_t m1 = (size_t)r2.below(n - 1), gap = 1 + (size_t)r2.below(k % 3 == 0 ? 8 : k % 3 == 1 ? 40 : 100);
            size_t m2 = m1 + gap < n ? m1 + gap : n - 1;
            if (k % 4 == 3 && m1 % 32 > 0) { size_t lane = m1 % 32; m2 = (m1 / 32 + 1) * 32 + (size_t)r2.below(lane); if (m2 >= n) m2 = n - 1; }   // later vector, LOWER lane
            if (m2 == m1) continue;
            int d1 = (k & 1) ? 1 : -1;
            B.data[m1] = (char)((unsigned char)A.data[m1] + d1); B.data[m2] = (char)((unsigned char)A.data[m2] - d1);
            int ref = memcmp(A.data, B.data, n);
            for (auto& c : kCmps) {
              out.detail = std::string(c.name) + " n=" + std::to_string(n) + " two mismatches at " + std::to_string(m1) + " and " + std::to_string(m2);
              int cm = c.cmp(A.data, B.data, n); bool eq = c.eq(A.data, B.data, n);
              g_cmp_cases++;
              if (eq) violate("model", "InlinedMemcmpEq:result", "returned equal for operands with two differences");
              if (sgn(cm) != sgn(ref)) violate("model", "InlinedMemcmp:sign", "returned " + std::to_string(cm) + " but memcmp gives " + std::to_string(ref) + " (the first of two differences decides)");
            }
          }
          A.free(); B.free();
        }
        // empty ranges carry no address: {nullptr, 0} is the empty string
        if (n == 0) {
          CBuf A; A.init("x", 1, simmem::PL_END);
          for (auto& c : kCmps) {
            out.detail = std::string(c.name) + " n=0 with null operands";
            g_cmp_cases++;
            if (!c.eq(nullptr, A.data, 0) || !c.eq(A.data, nullptr, 0) || !c.eq(nullptr, nullptr, 0)) violate("model", "InlinedMemcmpEq:result", "empty ranges compare different when one of them has no address");
            if (c.cmp(nullptr, A.data, 0) != 0 || c.cmp(A.data, nullptr, 0) != 0 || c.cmp(nullptr, nullptr, 0) != 0) violate("model", "InlinedMemcmp:sign", "empty ranges do not compare equal when one of them has no address");
          }
          A.free();
        }
        h = mix64(h ^ n);
      } else if (op.kind == "MemcmpHuge") {
        // operands of 2^32 bytes and more (untouched zero pages, virtual memory only): a single differing byte
        if (!simmem::guarded()) { out.ops_executed++; out.op_hashes.push_back(h); continue; }
        size_t n = ((size_t)1 << 32) + (size_t)op.A(0) % 4096;
        size_t at = (size_t)op.A(1) % (1u << 20) + 64;           // mismatch early enough to stay cheap
        char* A = simmem::caller_raw(n); char* B = simmem::caller_raw(n);
        for (int with = 0; with < 2; with++) {
          if (with) B[at] = 1;
          for (auto& c : kCmps) {
            out.detail = std::string(c.name) + " n=2^32+" + std::to_string(n - ((size_t)1 << 32)) + " mismatch_at=" + (with ? std::to_string(at) : std::string("last"));
            if (!with) { A[n - 1] = 7; }   // equal prefix is not scanned in full: differ in the last byte instead
            bool eq = c.eq(A, B, n);
            int cm = c.cmp(A, B, n);
            g_cmp_cases++;
            if (eq) violate("model", "InlinedMemcmpEq:result", "4 GiB operands that differ were reported equal");
            if (sgn(cm) != (with ? -1 : 1)) violate("model", "InlinedMemcmp:sign", "wrong sign for 4 GiB operands: " + std::to_string(cm));
            if (!with) A[n - 1] = 0;
          }
        }
        simmem::caller_free(A); simmem::caller_free(B);
        probe("c14_operands_of_4GiB");
        h = mix64(h ^ n);
      } else if (op.kind == "KeyLookup") {
        // through the API: keys are caller-owned bytes ending at guard pages; probes too
        size_t L = (size_t)op.A(0) % 1500;
        bool aliased = (op.A(3) & 2) && L >= 8;   // keys are prefixes of ONE caller buffer: same start address, different lengths
        uint64_t cseed = (uint64_t)op.A(1);
        size_t K = (size_t)op.A(2) % 7 + 1;
        bool with_map = op.A(3) & 1;
        std::string stem; fill_content(stem, L, cseed, 0);
        std::vector<std::string> keys;
        Rng r(cseed);
        for (size_t k = 0; k < K; k++) {
          std::string s = stem;
          if (aliased) { keys.push_back(stem.substr(0, L - k)); continue; }
          if (L) { size_t pos = k == 0 ? L - 1 : (k == 1 ? 0 : (k == 2 ? L / 2 : r.below(L))); s[pos] = (char)('A' + k); }
          else if (k) break;
          bool dup = false; for (auto& e : keys) if (e == s) dup = true;
          if (!dup) keys.push_back(s);
        }
        std::vector<CBuf> kb;
        DSim d; d.SetObject();
        if (aliased) {
          CBuf b(stem, simmem::PL_END); kb.push_back(b);
          for (size_t k = 0; k < keys.size(); k++) d.AddMember(StringView(b.data, keys[k].size()), NSim((uint64_t)k), d.GetAllocator(), false);
          probe("c14_lookup_keys_aliasing_one_buffer");
        } else
        for (size_t k = 0; k < keys.size(); k++) {
          CBuf b(keys[k], simmem::PL_END); kb.push_back(b);
          d.AddMember(StringView(b.data, keys[k].size()), NSim((uint64_t)k), d.GetAllocator(), false);
        }
        if (with_map) d.CreateMap(d.GetAllocator());
        std::vector<std::string> probes = keys;
        if (L) { std::string s = stem; s[L / 2] ^= 0x20; probes.push_back(s); s = keys[0]; s[L - 1] ^= 1; probes.push_back(s); probes.push_back(stem.substr(0, L - 1)); }
        probes.push_back(stem + "z"); probes.push_back(stem);
        for (auto& pr : probes) {
          int want = -1; for (size_t k = 0; k < keys.size(); k++) if (keys[k] == pr) { want = (int)k; break; }
          for (simmem::Place pl : {simmem::PL_END, simmem::PL_START}) {
            CBuf pb(pr, pl);
            out.detail = "key length " + std::to_string(pr.size()) + (with_map ? " with map" : " linear");
            long i1 = d.FindMember(pb.data, pr.size()) - d.MemberBegin();
            long i2 = d.FindMember(StringView(pb.data, pr.size())) - d.MemberBegin();
            bool has = d.HasMember(StringView(pb.data, pr.size()));
            long e = (long)d.Size();
            long w = want < 0 ? e : want;
            g_cmp_cases++;
            if (i1 != w || i2 != w || has != (want >= 0))
              violate("model", "KeyLookup:result", "lookup of a " + std::to_string(pr.size()) + "-byte key: FindMember(ptr,len)=" + std::to_string(i1) + " FindMember(view)=" + std::to_string(i2) + " HasMember=" + std::to_string(has) + ", expected index " + std::to_string(w) + " of " + std::to_string(e));
            pb.free();
          }
        }
        if (aliased && L > keys.size() + 1) {
          // probes that START AT THE SAME ADDRESS as the stored names but have a length no name has: not found
          for (size_t len : {(size_t)0, L - keys.size(), L - keys.size() - 1}) {
            long e = (long)d.Size();
            long i1 = d.FindMember(kb[0].data, len) - d.MemberBegin(), i2 = d.FindMember(StringView(kb[0].data, len)) - d.MemberBegin();
            g_cmp_cases++;
            out.detail = "probe of length " + std::to_string(len) + " at the address of the stored names" + (with_map ? " with map" : " linear");
            if (i1 != e || i2 != e || d.HasMember(StringView(kb[0].data, len)))
              violate("model", "KeyLookup:result", "a key that starts at a stored name's address but has another length was found: FindMember(ptr,len)=" + std::to_string(i1) + " FindMember(view)=" + std::to_string(i2) + " of " + std::to_string(e));
          }
        }
        if (with_map) probe("c14_lookup_with_map"); else probe("c14_lookup_linear");
        // destroy before releasing key storage
        { DSim tmp; d.Swap(tmp); }
        for (auto& b : kb) b.free();
        h = mix64(h ^ L ^ (K << 20));
      }
      out.ops_executed++;
      out.op_hashes.push_back(h);
    }
  } catch (Violation& v) {
    out.violated = true; out.vclass = v.cls; out.site = v.site; out.detail = v.detail + " [" + out.detail + "]"; out.op = cur;
    return;
  }
  out.detail.clear();
  out.faults_fired = simmem::g_ctr[simmem::C_ALLOC] - c0;
  out.obs_hash = h; out.outcome_vec = h;
  g_stats.probe["c14_compare_calls(length x distance_a x distance_b x mismatch x tail x kernel)"] = g_cmp_cases;
}
static void gen_c14(uint64_t seed, uint64_t run, const std::string& tier, Plan& p) {
  uint64_t rs = mix3(seed, prop_tag("C14"), run);
  Rng r(rs);
  p.prop = "C14"; p.seed = seed; p.run = run; p.tier = tier;
  p.knobs["envseed"] = (int64_t)(mix64(rs ^ 0x77) >> 1);
  size_t n = (size_t)(run % (tier == "thorough" ? 261 : 131));
  if (r.chance(1, 5)) n = 131 + (size_t)r.below(1200);        // long operands: unrolled multi-vector loops
  else if (r.chance(1, 80)) n = 1300 + (size_t)r.below(8000);
  { p.ops.emplace_back(); Op& op = p.ops.back(); op.kind = "Memcmp"; op.a = {(int64_t)n, (int64_t)(r.next() >> 1), -1, -1}; }
  if (r.chance(1, 400)) { p.ops.emplace_back(); Op& op = p.ops.back(); op.kind = "MemcmpHuge"; op.a = {(int64_t)r.below(4096), (int64_t)r.below(1 << 20)}; }
  for (int k = 0; k < 2; k++) { p.ops.emplace_back(); Op& op = p.ops.back(); op.kind = "KeyLookup"; op.a = {(int64_t)(k == 0 ? n : r.below(131)), (int64_t)(r.next() >> 1), (int64_t)r.below(7), (int64_t)(k + (r.chance(1, 4) ? 2 : 0))}; }
}

static const Profile kC09 = {"C09", gen_c09, exec_c09,
  "enumeration: run i takes string length n = i mod 161; for EVERY distance 0..70 (+96,128,200,1000,3000) between the end of the string and a PROT_NONE page, source placed accordingly and destination of exactly 6n+32+3 bytes ending at a guard page, each kernel available in the flavour (static; in the dispatch build also the sse and avx2 clones directly) is run with benign and hostile trailing bytes; contents are seeded (6 byte-class mixes; for n<=70 one special byte walking over every position); plus Serialize of string arrays into tight buffers, and (one run in six) a string of control bytes whose 6n+35 reservation ends within 48 bytes of cap, 1.5 cap or 2 cap of a write buffer of 64 bytes .. 5 MiB filled to 0/50/90 %; run 97 serialises one string of 715 827 877+ bytes, half of them control bytes (its 6n+35 reservation needs more than 32 bits, its quoted form more than 2 GiB). evaluations = runs; reach probe c09_quote_calls counts kernel executions; non-trivial = >=1 guarded placement fired; distinct = hash(op list, output digest)"};
static const Profile kC14 = {"C14", gen_c14, exec_c14,
  "enumeration: run i takes length n = i mod 131 (one run in five 131..1330 and one in eighty up to 9300, with a mismatch in every 16-byte window); both operands at distances 0..40 (+64,500) from a PROT_NONE page (all pairs near the page, every third pair in the interior), mismatch at none/first/last/vector-boundary/random positions, bytes after the operands equal or different, each kernel of the flavour (dispatch build: sse and avx2 clones) judged against memcmp, plus API lookups (FindMember both overloads, HasMember, with and without map) on objects whose key bytes and probe keys end at guard pages. evaluations = runs; reach probe c14_compare_calls counts comparisons; distinct = hash(op list)"};
static ProfileReg r09(&kC09), r14(&kC14);
}  // namespace
