// DOM interpreter class (shared by the per-allocator translation units; see prof_dom.cc)
#pragma once
#include <functional>
#include <memory>
#include <set>

#include "domlib.h"

namespace simdom {
using namespace sim;
using namespace sonic_json;
using model::JVal;

using PoolA = MemoryPoolAllocator<SimBase>;
using NPool = DNode<PoolA>;
using NSimple = DNode<SimpleAllocator>;
using NSim = DNode<SimAlloc>;
using DPool = GenericDocument<NPool>;
using DSimple = GenericDocument<NSimple>;
using DSim = GenericDocument<NSim>;

template <class D> struct NodeOf;
template <class N> struct NodeOf<GenericDocument<N>> { using type = N; };

enum { FL_POOL = 0, FL_SIMPLE = 1, FL_SIM = 2 };
constexpr int NSLOT = 6;
constexpr int NWB = 3;

enum Chk : uint32_t {
  CHK_WALK = 1, CHK_LOOKUP = 2, CHK_LEDGER = 4, CHK_ENVDEP = 8, CHK_PARSEVAL = 16, CHK_SER = 32,
  CHK_EQ = 64, CHK_SCHEMA = 128, CHK_PARSEFAIL = 256
};
// attached faults
enum Fault : int64_t { FT_NONE = 0, FT_STRBUF_FAIL = 1, FT_NODESTACK_FAIL = 2, FT_STRCOPY_FAIL = 3 };

struct Slot {
  int flavour = 0;
  void* doc = nullptr;
  JVal m;
  bool may_map = false;        // after a resync some object may carry a lookup map
  uint32_t schema_live = 0;    // ledger id of the live ParseSchema text buffer
  bool own_alloc = false;
  // a node moved OUT of the document (pool flavour only: its memory stays valid as long as the pool lives, whatever the
  // document does afterwards - reparse, ParseSchema, mutation); checked like a document after every op
  void* stash = nullptr;
  JVal stash_m;
};

struct RunResult {
  std::vector<uint64_t> op_hashes;
  std::vector<std::string> op_text;
  std::vector<std::string> known;
  uint64_t executed = 0, skipped = 0;
  uint64_t outcome_vec = 0;
};

struct DomExec {
  const Plan& plan;
  int env_id;
  RunResult& rr;
  uint32_t chk;
  Slot slots[NSLOT];
  std::vector<std::unique_ptr<PoolA>> pools;
  WriteBuffer* wb[NWB] = {nullptr, nullptr, nullptr};
  std::vector<char*> keep;
  std::vector<std::pair<char*, std::string>> shared_const;
  std::vector<std::string> gone_keys;   // keys removed/erased recently: probed by every later lookup check (stale map entries)
  void note_gone(const std::string& k) { if (gone_keys.size() >= 10) gone_keys.erase(gone_keys.begin()); gone_keys.push_back(k); }   // const string buffers that later, shorter strings may alias
  std::vector<std::pair<char*, size_t>> canaries;   // bytes right behind user-supplied pool buffers
  void check_canaries() {
    for (auto& c : canaries) for (size_t i = 0; i < c.second; i++) if ((unsigned char)c.first[i] != 0xC5) violate("overlap", site("user_buffer_overrun"), "a pool constructed over a caller-supplied buffer wrote past the end of that buffer (" + std::to_string(c.second - i) + " byte(s) before its end were overwritten)");
  }
  std::set<uint32_t> d5_expected;
  std::string ob;      // observation text of the current op
  int cur_op = -1;
  std::string cur_kind;
  uint64_t seed;

  DomExec(const Plan& p, int env, RunResult& r) : plan(p), env_id(env), rr(r) {
    chk = (uint32_t)p.K("chk", CHK_WALK | CHK_LOOKUP | CHK_LEDGER | CHK_ENVDEP);
    seed = (uint64_t)p.K("envseed", 1);
    walk_all_every = (int)p.K("walk_all_every", 1);
  }

  template <class F> void with_doc(Slot& s, F&& f) {
    switch (s.flavour) {
      case FL_POOL: f(*(DPool*)s.doc); break;
      case FL_SIMPLE: f(*(DSimple*)s.doc); break;
      default: f(*(DSim*)s.doc); break;
    }
  }
  std::string site(const char* what) { return cur_kind + ":" + what; }

  size_t pool_chunk_cap() {
    static const size_t capsA[] = {65536, 4096, 1024, 256};
    static const size_t capsB[] = {512, 65536, 2048, 8192};
    uint64_t h = mix64(seed ^ 0xC4A9);
    return env_id == 0 ? capsA[h % 4] : capsB[(h >> 8) % 4];
  }
  void new_doc(Slot& s, bool own) {
    s.own_alloc = own;
    switch (s.flavour) {
      case FL_POOL:
        if (own) s.doc = new DPool();
        else if (plan.K("share_pool", 0) && !pools.empty()) { s.doc = new DPool(pools[0].get()); probe("documents_sharing_one_pool"); }
        else if (plan.K("user_buffer_pool", 0)) {
          // pool over a caller-supplied buffer that ends at a guard page and starts misaligned by 0..7 bytes
          size_t mis = (size_t)(plan.K("user_buffer_pool", 1) - 1);
          static const size_t sizes[] = {88, 96, 104, 120, 200, 1000, 3000};   // after lead, misalignment, end gap and alignment padding at least 56+8 bytes must remain (documented precondition)
          size_t bsz = sizes[mix64(seed ^ pools.size()) % 7] + (mix64(seed ^ 77) % 8);
          char* buf = simmem::caller_buf(std::string(bsz + 8, 'U').data(), bsz + 8, simmem::PL_END);   // buf+bsz+8 is the page end
          keep.push_back(buf);
          size_t lead = ((uintptr_t)buf & 7) ? 8 - ((uintptr_t)buf & 7) : 0;   // make buf+lead 8-aligned, then add the wanted misalignment
          char* ub = buf + lead + mis;
          // the buffer ends e bytes (0..7) before the guard page; those bytes are a canary the pool must never touch
          size_t e = (size_t)(mix64(seed ^ 0xE0D) % 8);
          size_t usable = (size_t)(buf + bsz + 8 - ub) - e;
          memset(ub + usable, 0xC5, e);
          canaries.push_back({ub + usable, e});
          pools.emplace_back(new PoolA(ub, usable, pool_chunk_cap(), nullptr));
          s.doc = new DPool(pools.back().get());
          probe(mis ? "pool_over_misaligned_user_buffer" : "pool_over_user_buffer");
        }
        else { pools.emplace_back(new PoolA(pool_chunk_cap())); s.doc = new DPool(pools.back().get()); }
        break;
      case FL_SIMPLE: s.doc = new DSimple(); break;
      default: s.doc = new DSim(); break;
    }
    s.m = JVal::null(); s.may_map = false; s.schema_live = 0;
  }
  template <class A> static auto pool_clear(A& a) -> decltype(a.Clear(), void()) { a.Clear(); }   // only pool allocators have Clear()
  static void pool_clear(...) {}
  void drop_stash(Slot& s) {   // pool flavour only: the node's destructor touches no memory
    if (s.stash) { delete (typename NodeOf<DPool>::type*)s.stash; s.stash = nullptr; s.stash_m = JVal::null(); }
  }
  void del_doc(Slot& s) {
    drop_stash(s);   // its memory may die with the document's own pool
    switch (s.flavour) {
      case FL_POOL: delete (DPool*)s.doc; break;
      case FL_SIMPLE: delete (DSimple*)s.doc; break;
      default: delete (DSim*)s.doc; break;
    }
    s.doc = nullptr; s.schema_live = 0;
  }

  // ---- node addressing (paths interpreted modulo what exists)
  template <class N> struct NRef { N* n; JVal* m; std::vector<int> idx; };
  template <class N> NRef<N> resolve(N& root, JVal& m, const std::string& path) {
    NRef<N> r{&root, &m, {}};
    for (unsigned char b : path) {
      if (r.m->k == JVal::Arr && !r.m->a.empty()) {
        if (!r.n->IsArray() || r.n->Size() != r.m->a.size()) violate("model", site("resolve"), "array size differs from model");
        size_t i = b % r.m->a.size();
        r.n = &(*r.n)[i]; r.m = &r.m->a[i]; r.idx.push_back((int)i);
      } else if (r.m->k == JVal::Obj && !r.m->o.empty()) {
        if (!r.n->IsObject() || r.n->Size() != r.m->o.size()) violate("model", site("resolve"), "object size differs from model");
        size_t i = b % r.m->o.size();
        r.n = &((r.n->MemberBegin() + i)->value); r.m = &r.m->o[i].second; r.idx.push_back((int)i);
      } else break;
    }
    return r;
  }
  // ops that need an object / array: if the modulo path lands elsewhere, pick (deterministically from the
  // path bytes) among the nodes of the wanted kind that exist in this document
  static void collect_kind(const JVal& m, int want, std::vector<int>& cur, std::vector<std::vector<int>>& out) {
    if (out.size() >= 48) return;
    if ((want == 0 && m.k == JVal::Obj) || (want == 1 && m.k == JVal::Arr) || (want == 2 && m.is_container())) out.push_back(cur);
    if (m.k == JVal::Arr) for (size_t i = 0; i < m.a.size(); i++) { cur.push_back((int)i); collect_kind(m.a[i], want, cur, out); cur.pop_back(); }
    if (m.k == JVal::Obj) for (size_t i = 0; i < m.o.size(); i++) { cur.push_back((int)i); collect_kind(m.o[i].second, want, cur, out); cur.pop_back(); }
  }
  template <class N> NRef<N> resolve_kind(N& root, JVal& m, const std::string& path, int want) {
    NRef<N> r = resolve(root, m, path);
    bool ok = (want == 0 && r.m->k == JVal::Obj) || (want == 1 && r.m->k == JVal::Arr) || (want == 2 && r.m->is_container());
    if (ok) return r;
    std::vector<std::vector<int>> cands; std::vector<int> cur;
    collect_kind(m, want, cur, cands);
    if (cands.empty()) return r;
    uint64_t h = fnv1a(path.data(), path.size());
    std::string p2;
    for (int i : cands[h % cands.size()]) p2 += (char)i;   // indices < 256 by construction of the generators
    return resolve(root, m, p2);
  }
  static int wanted_kind(const std::string& k) {
    if (k == "AddMember" || k == "AddMemberN" || k == "RemoveMember" || k == "EraseMember" || k == "MemberReserve" || k == "CreateMap" || k == "DestroyMap" || k == "Lookup") return 0;
    if (k == "PushBack" || k == "PushBackN" || k == "PopBack" || k == "Erase" || k == "Reserve") return 1;
    if (k == "Clear") return 2;
    return -1;
  }
  static bool is_prefix(const std::vector<int>& a, const std::vector<int>& b) {  // a prefix of b (or equal)
    if (a.size() > b.size()) return false;
    for (size_t i = 0; i < a.size(); i++) if (a[i] != b[i]) return false;
    return true;
  }

  // ---- checks
  template <class D> void check_doc(D& doc, Slot& s, const char* when) {
    using N = typename NodeOf<D>::type;
    std::string got = walk_str(static_cast<const N&>(doc));
    std::string want = model::canon(s.m);
    if (got != want)
      violate("model", site(when), "document differs from model: got " + model::printable(got, 300) + " want " + model::printable(want, 300));
  }
  // Full walk of EVERY document after every op (cross-document corruption, copy independence). For
  // throughput the untouched documents are re-walked on a rotating schedule in profiles that do not
  // ask for CHK_LEDGER (C13 always walks all).
  int touched_a = -1, touched_b = -1;
  void check_all_docs(const char* when) {
    if (!(chk & CHK_WALK)) return;
    bool all = (chk & CHK_LEDGER) || walk_all_every <= 1 || (cur_op % walk_all_every) == 0 || cur_op + 1 == (int)plan.ops.size();
    for (int i = 0; i < NSLOT; i++) {
      Slot& s = slots[i];
      if (!s.doc) continue;
      if (!all && i != touched_a && i != touched_b) continue;
      with_doc(s, [&](auto& d) { check_doc(d, s, when); });
      if (s.stash) {
        std::string got = walk_str(*(const typename NodeOf<DPool>::type*)s.stash), want = model::canon(s.stash_m);
        if (got != want) violate("model", site("moved_out_node"), "a node that was moved out of its document (pool allocator, pool still alive) changed: got " + model::printable(got, 300) + " want " + model::printable(want, 300));
      }
    }
  }
  int walk_all_every = 1;
  template <class N> void check_lookups(N& n, JVal& m, bool may_map) {
    if (m.k != JVal::Obj || !n.IsObject()) return;
    std::vector<std::string> keys;
    size_t stride = m.o.size() > 12 ? m.o.size() / 12 + 1 : 1, off = m.o.size() > 12 ? (size_t)(cur_op % (int)stride) : 0;
    for (size_t qi = off; qi < m.o.size(); qi += stride) { auto& kv = m.o[qi]; bool dup = false; for (auto& k : keys) if (k == kv.first) dup = true; if (!dup && keys.size() < 14) keys.push_back(kv.first); }
    if (!m.o.empty() && m.find(m.o.back().first) >= 0) { bool dup = false; for (auto& k : keys) if (k == m.o.back().first) dup = true; if (!dup) keys.push_back(m.o.back().first); }
    size_t present = keys.size();
    keys.push_back("zz"); keys.push_back("");
    if (present) { std::string k = keys[0]; if (k.empty()) k = "\x01"; else k[k.size() - 1] ^= 1; keys.push_back(k); k = keys[0] + "x"; keys.push_back(k); }
    keys.push_back(std::string(40, 'k'));
    for (auto& gk : gone_keys) { bool dup = false; for (auto& k : keys) if (k == gk) dup = true; if (!dup) keys.push_back(gk); }
    const N& cn = n;
    for (auto& k : keys) {
      int want = m.find(k);
      bool relaxed = (m.has_map || may_map) && m.count_key(k) > 1;
      CBuf kb(k, simmem::PL_AUTO);
      StringView kv(kb.data, k.size());
      auto it1 = n.FindMember(kv);
      auto it2 = n.FindMember(kb.data, k.size());
      auto it3 = cn.FindMember(kv);
      bool has = cn.HasMember(kv);
      const N& sub = cn[kv];
      long i1 = it1 - n.MemberBegin(), i2 = it2 - n.MemberBegin(), i3 = it3 - cn.MemberBegin(), e = (long)n.Size();
      auto bad = [&](const char* what) {
        violate("model", site("lookup"), std::string(what) + " for key '" + model::printable(k) + "' (model index " + std::to_string(want) + ", FindMember(view) " + std::to_string(i1) + ", FindMember(ptr,len) " + std::to_string(i2) + ", size " + std::to_string(e) + ")");
      };
      if (want < 0) {
        if (i1 != e || i2 != e || i3 != e) bad("absent key reported found");
        if (has) bad("HasMember true for absent key");
        if (!sub.IsNull()) bad("operator[] of absent key is not null");
        if (((size_t)cur_op + k.size()) % 3 == 0) {   // what a miss hands out may be written to; the library discards it: the next miss is null again
          n[kv].SetInt64(12345);
          if (!cn[kv].IsNull() || !n[kv].IsNull()) bad("after a write through the reference operator[] returns for an absent key, the next miss is not null");
        }
      } else {
        if (i1 < 0 || i1 >= e || i2 < 0 || i2 >= e || i3 < 0 || i3 >= e) bad("present key not found");
        if (!has) bad("HasMember false for present key");
        if (relaxed) {
          if (it1->name.GetStringView() != StringView(k.data(), k.size()) || it2->name.GetStringView() != StringView(k.data(), k.size())) bad("lookup returned a member with another key");
        } else {
          if (i1 != want || i2 != want || i3 != want) bad("lookup returned a different member than the first with that key");
          if (&sub != &it1->value) bad("operator[] is not the found member's value");
        }
      }
      kb.release();
      ob += 'L'; ob += std::to_string(want < 0 ? -1 : (relaxed ? -2 : want));
    }
    // probes that ARE (part of) a stored name: the same address with a shorter length is another key (address identity must not
    // decide a lookup), and the empty key may be handed over as a view without any address at all ({nullptr, 0})
    if (!(m.has_map || may_map) || !m.has_dup_keys()) {
      size_t nm = n.Size(), step = nm > 6 ? nm / 6 : 1;
      for (size_t qi = (size_t)cur_op % step; qi < nm; qi += step) {
        StringView name = (n.MemberBegin() + (long)qi)->name.GetStringView();
        if (name.size() == 0) continue;
        size_t cut = name.size() - 1 - ((size_t)cur_op + qi) % (name.size() < 4 ? 1 : 3) % name.size();
        std::string pk(name.data(), cut);
        int want = m.find(pk);
        long e = (long)n.Size();
        long i1 = n.FindMember(StringView(name.data(), cut)) - n.MemberBegin(), i2 = n.FindMember(name.data(), cut) - n.MemberBegin();
        if (want < 0 ? (i1 != e || i2 != e) : (m.count_key(pk) > 1 ? (i1 == e || i2 == e) : (i1 != want || i2 != want)))
          violate("model", site("lookup_prefix_of_stored_name"), "lookup with the first " + std::to_string(cut) + " bytes of member " + std::to_string(qi) + "'s own name buffer ('" + model::printable(pk) + "'): model index " + std::to_string(want) + ", FindMember(view) " + std::to_string(i1) + ", FindMember(ptr,len) " + std::to_string(i2) + ", size " + std::to_string(e));
      }
      int we = m.find("");
      if (we < 0 || m.count_key("") == 1) {
        const N& cn = n;
        long e = (long)n.Size(), w = we < 0 ? e : we;
        long j1 = n.FindMember(StringView()) - n.MemberBegin(), j2 = n.FindMember((const char*)nullptr, 0) - n.MemberBegin(), j3 = cn.FindMember(StringView()) - cn.MemberBegin();
        bool has = cn.HasMember(StringView());
        if (j1 != w || j2 != w || j3 != w || has != (we >= 0) || (we >= 0 && &cn[StringView()] != &(n.MemberBegin() + we)->value))
          violate("model", site("lookup_null_view"), "lookup of the empty key given as {nullptr,0}: model index " + std::to_string(we) + ", FindMember(view) " + std::to_string(j1) + ", FindMember(ptr,len) " + std::to_string(j2) + ", HasMember " + std::to_string(has) + ", size " + std::to_string(e));
      }
    }
  }

  // ---- D5 bookkeeping (defect repaired by /repo 08c86de; kept so that its return is named precisely:
  //      before the repair the text buffer was exactly len+64 bytes and earlier ones were never freed)
  void note_schema_buffer(Slot& s, size_t textlen) {
    if (s.flavour == FL_POOL) return;
    uint8_t prov = s.flavour == FL_SIM ? simmem::SIMALLOC : simmem::LIBC;
    for (auto& b : simmem::op_allocs()) {
      if (b.prov == prov && !b.via_realloc && b.size == textlen + 64) {
        if (s.schema_live) d5_expected.insert(s.schema_live);
        s.schema_live = b.id;
        return;
      }
    }
  }

  // bulk insertions: up to 48 elements normally, 1800 in "big" plans; in "huge" plans (big=2) the first bulk op may
  // add up to 72000 (container sizes across 65536), the later ones stay small to bound the cost of the walks
  bool huge_used = false;
  size_t bulk_count(int64_t a) {
    int64_t big = plan.K("big", 0);
    if (big == 2 && !huge_used && (uint64_t)a >= 50000) { huge_used = true; probe("bulk_insertion_beyond_65536"); return (size_t)((uint64_t)a % 72001); }
    return (size_t)((uint64_t)a % (big == 1 ? 1800 : 48)) + 1;
  }

  // ---- op execution
  void run() {
    for (int i = 0; i < NSLOT; i++) { slots[i].flavour = i % 3; }
    int64_t flmask = plan.K("flavours", 7);
    int64_t ownmask = plan.K("own_alloc", 0);
    simmem::set_op(-1, -1);
    for (int i = 0; i < NSLOT; i++)
      if (flmask & (1 << slots[i].flavour)) new_doc(slots[i], (ownmask >> i) & 1);
    for (int i = 0; i < NWB; i++) wb[i] = new WriteBuffer();
    // exact-fit growth makes every Grow a realloc (which SimMem usually moves): quadratic in the output size, so it is not
    // combined with the plans that build containers of 60000+ elements
    g_tight_growth = plan.K("big", 0) == 2 ? 0 : (int)plan.K("tight_growth", 0);

    for (size_t i = 0; i < plan.ops.size(); i++) {
      const Op& op = plan.ops[i];
      cur_op = (int)i; cur_kind = op.kind; ob.clear();
      simmem::set_op((int)i, (int)(fnv1a(op.kind.data(), op.kind.size()) & 0x7fff));
      bool done = exec_op(op);
      drain_pending(site("ledger"));
      if (done) { rr.executed++; check_all_docs("after"); drain_pending(site("ledger")); check_canaries(); }
      else { rr.skipped++; ob = "skip"; }
      rr.outcome_vec = mix64(rr.outcome_vec ^ fnv1a(ob.data(), ob.size() < 16 ? ob.size() : 16));
      rr.op_hashes.push_back(fnv1a(ob.data(), ob.size()));
      if (g_verbose) rr.op_text.push_back(op.kind + " -> " + model::printable(ob, 400));
    }
    teardown();
  }

  void teardown() {
    cur_op = (int)plan.ops.size(); cur_kind = "Teardown";
    simmem::set_op(cur_op, 0x7ffe);
    g_tight_growth = 0;
    for (int i = NSLOT - 1; i >= 0; i--) if (slots[i].doc) del_doc(slots[i]);
    pools.clear();
    for (int i = 0; i < NWB; i++) { delete wb[i]; wb[i] = nullptr; }
    drain_pending(site("ledger"));
    for (char* p : keep) simmem::caller_free(p);
    keep.clear();
    if (!(chk & CHK_LEDGER)) return;
    std::vector<simmem::Block> live, all;
    for (int prov : {(int)simmem::LIBC, (int)simmem::SIMALLOC, (int)simmem::SIMBASE}) {
      simmem::live_blocks((simmem::Provider)prov, live);
      all.insert(all.end(), live.begin(), live.end());
    }
    if (all.empty()) return;
    bool only_d5 = true;
    for (auto& b : all) if (!d5_expected.count(b.id)) only_d5 = false;
    if (only_d5) {
      if (known_listed("C13:leak:schema_strbuf_prev")) { rr.known.push_back("C13:leak:schema_strbuf_prev"); return; }
      violate("ledger", "Teardown:leak:schema_strbuf_prev", std::to_string(all.size()) + " ParseSchema text buffer(s) of earlier ParseSchema calls on the same document still allocated after every owner was destroyed");
    }
    const simmem::Block* w = nullptr;
    for (auto& b : all) if (!d5_expected.count(b.id)) { w = &b; break; }
    std::string opk = w->op >= 0 && (size_t)w->op < plan.ops.size() ? plan.ops[(size_t)w->op].kind : "?";
    violate("ledger", "Teardown:leak:" + opk, std::to_string(all.size()) + " block(s) still allocated after every owner was destroyed; first: size " + std::to_string(w->size) + " provider " + std::to_string((int)w->prov) + " allocated in op " + std::to_string(w->op) + " (" + opk + ")");
  }

  bool exec_op(const Op& op) {
    const std::string& k = op.kind;
    int si = (int)((uint64_t)op.A(0) % NSLOT);
    // slot selection honours the flavour mask: advance to the next existing slot
    for (int t = 0; t < NSLOT && !slots[si].doc; t++) si = (si + 1) % NSLOT;
    Slot& s = slots[si];
    if (!s.doc) return false;
    touched_a = si; touched_b = -1;
    bool done = false;
    if (k == "DocMove" || k == "DocMoveCtor" || k == "DocSwap") return doc_level(op, s);
    if (k == "DocReset") { del_doc(s); new_doc(s, op.A(1) & 1); ob = "reset"; return true; }
    if (k == "WbNew") { int w = (int)((uint64_t)op.A(0) % NWB); delete wb[w]; wb[w] = op.A(1) < 0 ? new WriteBuffer() : new WriteBuffer((size_t)op.A(1)); ob = "wb"; return true; }
    if (k == "WbReserve") { int w = (int)((uint64_t)op.A(0) % NWB); wb[w]->Reserve(1 + (size_t)((uint64_t)op.A(1) % 3000)); ob = "wbr"; return true; }   // Reserve(0) on an empty buffer is realloc(p, 0): outside C06's statement (debug assert only)
    if (k == "WbUse") {   // the user writes into the buffer between serialisations (reused, non-empty buffer)
      int w = (int)((uint64_t)op.A(0) % NWB);
      size_t cnt = (size_t)((uint64_t)op.A(1) % 200);
      for (size_t i = 0; i < cnt; i++) wb[w]->Push<char>((char)('a' + i % 26));
      if (op.A(2) & 1) wb[w]->Push("tail", 4);
      if (wb[w]->Size() != cnt + ((op.A(2) & 1) ? 4 : 0) && (op.A(3) & 1) == 0) { /* buffer was not empty before: fine */ }
      std::string got(wb[w]->ToString(), wb[w]->Size());
      if (got.size() < cnt || (cnt && got[got.size() - ((op.A(2) & 1) ? 5 : 1)] != (char)('a' + (cnt - 1) % 26))) violate("model", site("content"), "WriteBuffer Push/ToString lost bytes");
      if (op.A(3) & 1) wb[w]->Clear();
      ob = "wbu"; return true;
    }
    if (k == "WbMove") { int d = (int)((uint64_t)op.A(0) % NWB), sidx = (int)((uint64_t)op.A(1) % NWB); if (d == sidx) return false; *wb[d] = std::move(*wb[sidx]); ob = "wbmove"; return true; }
    if (k == "CopyFrom" || k == "Eq") {
      int oi = (int)((uint64_t)op.A(1) % NSLOT);
      for (int t = 0; t < NSLOT && !slots[oi].doc; t++) oi = (oi + 1) % NSLOT;
      Slot& o = slots[oi];
      touched_b = oi;
      bool copy = (k == "CopyFrom");
      switch (s.flavour) {   // each allocator flavour is compiled in its own translation unit
        case FL_POOL: return pair_op_pool(op, s, o, copy);
        case FL_SIMPLE: return pair_op_simple(op, s, o, copy);
        default: return pair_op_sim(op, s, o, copy);
      }
    }
    (void)done;
    switch (s.flavour) {
      case FL_POOL: return node_op_pool(op, s);
      case FL_SIMPLE: return node_op_simple(op, s);
      default: return node_op_sim(op, s);
    }
  }
  bool node_op_pool(const Op& op, Slot& s);
  bool node_op_simple(const Op& op, Slot& s);
  bool node_op_sim(const Op& op, Slot& s);
  bool pair_op_pool(const Op& op, Slot& s, Slot& o, bool copy);
  bool pair_op_simple(const Op& op, Slot& s, Slot& o, bool copy);
  bool pair_op_sim(const Op& op, Slot& s, Slot& o, bool copy);
  template <class D> bool pair_op(const Op& op, Slot& s, D& d, Slot& o, bool copy) {
    bool done = false;
    with_doc(o, [&](auto& e) { done = copy ? op_copyfrom(op, s, d, o, e) : op_eq(op, s, d, o, e); });
    return done;
  }

  bool doc_level(const Op& op, Slot& s) {
    int oi = (int)((uint64_t)op.A(1) % NSLOT);
    // partner must have the same flavour and be another slot
    int found = -1;
    for (int t = 0; t < NSLOT; t++) { int c = (oi + t) % NSLOT; if (&slots[c] != &s && slots[c].doc && slots[c].flavour == s.flavour) { found = c; break; } }
    if (found < 0) return false;
    Slot& o = slots[found];
    touched_b = found;
    with_doc(s, [&](auto& d) {
      using D = std::remove_reference_t<decltype(d)>;
      D& e = *(D*)o.doc;
      if (op.kind == "DocSwap") {
        d.Swap(e);
        std::swap(s.stash, o.stash); std::swap(s.stash_m, o.stash_m);   // the moved-out nodes live in the pools that just changed places
        std::swap(s.m, o.m); std::swap(s.may_map, o.may_map); std::swap(s.schema_live, o.schema_live); std::swap(s.own_alloc, o.own_alloc);
        ob = "swap";
      } else if (op.kind == "DocMove") {
        drop_stash(s); s.stash = o.stash; s.stash_m = std::move(o.stash_m); o.stash = nullptr; o.stash_m = JVal::null();
        d = std::move(e);
        s.m = std::move(o.m); s.may_map = o.may_map; s.schema_live = o.schema_live; s.own_alloc = o.own_alloc;
        o.schema_live = 0;
        del_doc(o); new_doc(o, false);
        ob = "move";
      } else {
        del_doc(s);
        s.stash = o.stash; s.stash_m = std::move(o.stash_m); o.stash = nullptr; o.stash_m = JVal::null();
        s.doc = new D(std::move(e));
        s.m = std::move(o.m); s.may_map = o.may_map; s.schema_live = o.schema_live; s.own_alloc = o.own_alloc;
        o.schema_live = 0;
        del_doc(o); new_doc(o, false);
        ob = "movector";
      }
    });
    return true;
  }

  template <class D, class E> bool op_copyfrom(const Op& op, Slot& s, D& d, Slot& o, E& e) {
    using N = typename NodeOf<D>::type; using M = typename NodeOf<E>::type;
    auto dst = resolve(static_cast<N&>(d), s.m, op.S(0));
    auto src = resolve(static_cast<M&>(e), o.m, op.S(1));
    if (&s == &o && (is_prefix(dst.idx, src.idx) || is_prefix(src.idx, dst.idx))) return false;  // documented precondition
    bool copy_str = op.A(2) & 1;
    JVal mv = *src.m; mv.clear_maps();
    dst.n->CopyFrom(*src.n, d.GetAllocator(), copy_str);
    if ((const void*)dst.n != (const void*)src.n) check_copy_independent(*src.n, *dst.n, copy_str);
    *dst.m = std::move(mv);
    ob = "copy";
    probe("copyfrom");
    if (s.flavour != o.flavour) probe("copyfrom_cross_allocator");
    return true;
  }

  template <class D, class E> bool op_eq(const Op& op, Slot& s, D& d, Slot& o, E& e) {
    using N = typename NodeOf<D>::type; using M = typename NodeOf<E>::type;
    auto a = resolve(static_cast<N&>(d), s.m, op.S(0));
    auto b = resolve(static_cast<M&>(e), o.m, op.S(1));
    const N& na = *a.n; const M& nb = *b.n;
    if (a.m->max_object_size() > 3000 || b.m->max_object_size() > 3000) return false;   // (also the reflexive checks) operator== is quadratic in the member count without a map: minutes for 60000+ members
    bool r1 = (na == nb), r2 = (nb == na), r3 = (na != nb), r4 = (na == na), r5 = (nb == nb);
    ob = std::string("eq") + (r1 ? '1' : '0');
    if (!(chk & CHK_EQ)) return true;
    if (a.m->has_dup_keys_deep() || b.m->has_dup_keys_deep()) return true;  // statement excludes duplicate keys
    if (!r4 || !r5) violate("model", site("reflexive"), "a node does not compare equal to itself");
    if (r1 != r2) violate("model", site("symmetric"), "A==B differs from B==A: A=" + model::printable(model::canon(*a.m), 200) + " B=" + model::printable(model::canon(*b.m), 200));
    if (r3 == r1) violate("model", site("negation"), "A!=B is not the negation of A==B");
    bool want = model::equal_value(*a.m, *b.m);
    if (r1 != want)
      violate("model", site("value_equality"), std::string("operator== returned ") + (r1 ? "true" : "false") + " but JSON value equality is " + (want ? "true" : "false") + ": A=" + model::printable(model::canon(*a.m), 200) + " B=" + model::printable(model::canon(*b.m), 200));
    probe(want ? "eq_true_pairs" : "eq_false_pairs");
    if (s.flavour != o.flavour) probe("eq_cross_allocator");
    return true;
  }

  template <class D> bool node_op(const Op& op, Slot& s, D& d) {
    using N = typename NodeOf<D>::type;
    using A = typename D::Allocator;
    const std::string& k = op.kind;
    N& root = static_cast<N&>(d);
    A& alloc = d.GetAllocator();
    BuildCtx bc; bc.seed = mix64(seed ^ (uint64_t)cur_op * 31337); bc.keep = &keep; bc.str_mode = (int)plan.K("str_mode", 2); bc.shared = &shared_const;

    // ---------------- a node that leaves the document and comes back later (pool flavour)
    if (k == "Stash" || k == "Unstash") {
      if (s.flavour != FL_POOL) return false;
      auto t = resolve(root, s.m, op.S(0));
      if (k == "Stash") {
        if (s.stash) return false;
        s.stash = new N(std::move(*t.n));
        s.stash_m = std::move(*t.m); *t.m = JVal::null();
        probe("node_moved_out_of_its_document");
        ob = "st"; return true;
      }
      if (!s.stash) return false;
      N* st = (N*)s.stash;
      *t.n = std::move(*st);
      *t.m = std::move(s.stash_m); s.stash_m = JVal::null();
      delete st; s.stash = nullptr;
      ob = "us"; return true;
    }
    // ---------------- the pool is emptied, then the document is parsed anew (the way pool memory is reclaimed between documents)
    if (k == "PoolClearReparse") {
      if (s.flavour != FL_POOL || !s.own_alloc) return false;
      const std::string& text = op.S(1);
      CBuf tb(text, simmem::PL_AUTO);
      model::ParseOut ref = model::parse(text);
      drop_stash(s);            // lived in the pool that is about to be emptied
      pool_clear(alloc);
      d.Parse(tb.data, text.size());
      tb.release();
      s.schema_live = 0;
      ob = "PC" + std::to_string((int)d.GetParseError());
      probe("pool_cleared_then_reparsed");
      after_parse(d, s, ref, text.size());
      return true;
    }
    // ---------------- Parse of a text that lives in the document's own pool (a JSON text carried in a string member)
    if (k == "ParseSelf") {
      if (s.flavour != FL_POOL) return false;
      auto t = resolve(root, s.m, op.S(0));
      if (t.m->k != JVal::Str || !t.n->IsString() || t.n->IsStringConst()) return false;   // an owned string: its bytes are pool memory
      std::string text = t.m->s;
      model::ParseOut ref = model::parse(text);
      StringView own = t.n->GetStringView();
      d.Parse(own);
      s.schema_live = 0;
      ob = "PS" + std::to_string((int)d.GetParseError());
      probe("parse_of_text_inside_own_pool");
      after_parse(d, s, ref, text.size());
      return true;
    }
    // ---------------- document-level parse family
    if (k == "Parse" || k == "ParseOnDemand" || k == "ParseSchema") {
      const std::string& text = op.S(1);
      CBuf tb(text, simmem::PL_AUTO);
      model::ParseOut ref = model::parse(text);
      if (k == "Parse") {
        bool armed = false;
        if (op.fault == FT_STRBUF_FAIL && s.flavour != FL_POOL) { simmem::arm_fail(s.flavour == FL_SIM ? simmem::SIMALLOC : simmem::LIBC, simmem::FK_MALLOC, 0); armed = true; }
        if (op.fault == FT_NODESTACK_FAIL) { simmem::arm_fail(simmem::LIBC, simmem::FK_REALLOC_NULL, 0); armed = true; }
        if ((cur_op + (int)text.size()) & 1) d.Parse(tb.data, text.size()); else d.Parse(StringView(tb.data, text.size()));   // both overloads
        bool fired = armed && simmem::disarm();
        if (text.size() && memcmp(tb.data, text.data(), text.size()) != 0) violate("contract", site("input_modified"), "Parse wrote into the caller's text");
        tb.release();
        s.schema_live = 0;
        ob = "P" + std::to_string((int)d.GetParseError()) + "@" + std::to_string(d.GetErrorOffset());
        if (fired) {
          probe("alloc_fail_fired_in_parse");
          if (d.GetParseError() != kErrorNoMem) violate("contract", site("nomem"), "allocation failure at a handled site did not yield kErrorNoMem (got " + std::to_string((int)d.GetParseError()) + ")");
          if (!d.IsNull()) violate("contract", site("nomem"), "document not null after kErrorNoMem");
          s.m = JVal::null(); s.may_map = false;
          return true;
        }
        after_parse(d, s, ref, text.size());
        return true;
      }
      if (k == "ParseOnDemand") {
        auto ps = pspec_decode(op.S(2));
        auto path = pspec_resolve(ps, ref.ok ? ref.v : JVal::null());
        JsonPointer jp = to_json_pointer(path);
        if ((cur_op + (int)text.size()) & 1) d.ParseOnDemand(tb.data, text.size(), jp); else d.ParseOnDemand(StringView(tb.data, text.size()), jp);
        if (text.size() && memcmp(tb.data, text.data(), text.size()) != 0) violate("contract", site("input_modified"), "ParseOnDemand wrote into the caller's text");
        tb.release();
        s.schema_live = 0;
        ob = "O" + std::to_string((int)d.GetParseError());
        if (d.HasParseError()) {
          if (!d.IsNull()) violate("contract", site("failed_parse_state"), "document not null after failed ParseOnDemand");
          s.m = JVal::null();
        } else {
          s.m = to_jval(root);
          if (ref.ok && (chk & CHK_PARSEVAL)) {
            const JVal* want = model::pointer(ref.v, path);
            if (!want || !model::equal_struct(*want, s.m)) violate("model", site("value"), "ParseOnDemand value differs from pointer lookup in the reference parse");
          }
          probe("parse_on_demand_ok");
        }
        s.may_map = false;
        ob += walk_str(root);
        return true;
      }
      // ParseSchema
      JVal before = s.m;
      bool had_map = s.may_map || any_map(s.m);
      bool armed = false;
      if (op.fault == FT_STRBUF_FAIL && s.flavour != FL_POOL) { simmem::arm_fail(s.flavour == FL_SIM ? simmem::SIMALLOC : simmem::LIBC, simmem::FK_MALLOC, 0); armed = true; }
      if (op.fault == FT_NODESTACK_FAIL) { simmem::arm_fail(simmem::LIBC, simmem::FK_REALLOC_NULL, 0); armed = true; }
      if ((cur_op + (int)text.size()) & 1) d.ParseSchema(tb.data, text.size()); else d.ParseSchema(StringView(tb.data, text.size()));
      bool fired = armed && simmem::disarm();
      if (text.size() && memcmp(tb.data, text.data(), text.size()) != 0) violate("contract", site("input_modified"), "ParseSchema wrote into the caller's text");
      tb.release();
      if (fired) {   // handled allocation failure: kErrorNoMem and the existing document untouched
        probe("alloc_fail_fired_in_parseschema");
        if (d.GetParseError() != kErrorNoMem) violate("contract", site("nomem"), "allocation failure at a handled site of ParseSchema did not yield kErrorNoMem (got " + std::to_string((int)d.GetParseError()) + ")");
        if (op.fault == FT_NODESTACK_FAIL) note_schema_buffer(s, text.size());
        else if (s.flavour != FL_POOL && s.schema_live) { d5_expected.insert(s.schema_live); s.schema_live = 0; }   // D5: the pointer to the earlier buffer was overwritten (here with null)
        ob = "SF";
        return true;   // model unchanged; the walk after the op verifies it
      }
      note_schema_buffer(s, text.size());
      ob = "S" + std::to_string((int)d.GetParseError());
      JVal actual = to_jval(root);
      if (ref.ok && (chk & CHK_SCHEMA) && !before.has_dup_keys_deep() && !ref.v.has_dup_keys_deep()) {
        if (d.HasParseError()) violate("model", site("error_on_valid_text"), "ParseSchema reported error " + std::to_string((int)d.GetParseError()) + " for a valid text");
        std::string why;
        if (!schema_ok(before, ref.v, actual, why))
          violate("model", site("merge"), "existing=" + model::printable(model::write(before), 200) + " text=" + model::printable(text, 200) + " result=" + model::printable(model::write(actual), 200) + " expected=" + model::printable(model::write(model::schema_merge(before, ref.v)), 200) + " (" + why + ")");
        probe("schema_merge_checked");
        if (before.k == JVal::Obj && !before.o.empty() && ref.v.k == JVal::Obj) probe("schema_update_mode");
      }
      s.m = std::move(actual);
      s.may_map = had_map;
      ob += model::canon(s.m);
      return true;
    }

    int wk = wanted_kind(k);
    auto t = wk >= 0 ? resolve_kind(root, s.m, op.S(0), wk) : resolve(root, s.m, op.S(0));
    N& n = *t.n; JVal& m = *t.m;

    if (k == "Build" || k == "Assign") {
      JVal v = canon_decode(op.S(1));
      bc.reserve_mode = (int)(op.A(1) % 3);
      N tmp; build(tmp, v, alloc, bc);
      n = std::move(tmp);
      m = std::move(v);
      ob = "b"; return true;
    }
    if (k == "CtorAssign") {   // node constructors for every scalar C++ type, move-assigned into place, then compared with the scalar
      int64_t x = op.A(2);
      switch ((uint64_t)op.A(1) % 9) {
        case 0: { int v = (int)x; n = N(v); m = JVal::sint(v); if (!(n == v) || (n != v) || n == (v ^ 1)) violate("model", site("scalar_eq"), "node built from int does not compare equal to it"); break; }
        case 1: { unsigned v = (unsigned)x; n = N(v); m = JVal::uint(v); if (!(n == (uint32_t)v) || n == (uint32_t)(v + 1)) violate("model", site("scalar_eq"), "node built from unsigned does not compare equal to it"); break; }
        case 2: { int64_t v = x; n = N(v); m = JVal::sint(v); if (!(n == v) || n == (int64_t)(v ^ 1)) violate("model", site("scalar_eq"), "node built from int64 does not compare equal to it"); break; }
        case 3: { uint64_t v = (uint64_t)x; n = N(v); m = JVal::uint(v); if (!(n == v) || n == (uint64_t)(v ^ 1)) violate("model", site("scalar_eq"), "node built from uint64 does not compare equal to it"); break; }
        case 4: { double v; uint64_t b = (uint64_t)x; if (((b >> 52) & 0x7ff) == 0x7ff) b &= ~(1ull << 62); memcpy(&v, &b, 8); n = N(v); m = JVal::real_bits(b); if (!(n == v)) violate("model", site("scalar_eq"), "node built from double does not compare equal to it"); break; }
        case 5: { float v = (float)(x % 100000) / 8.0f; n = N(v); m = JVal::real((double)v); if (!(n == v)) violate("model", site("scalar_eq"), "node built from float does not compare equal to it"); break; }
        case 6: { bool v = x & 1; n = N(v); m = JVal::boolean(v); if (!(n == v) || n == !v) violate("model", site("scalar_eq"), "node built from bool does not compare equal to it"); break; }
        case 7: { n = N(kNull); m = JVal::null(); break; }
        default: { n = N(kString); m = JVal::str(""); if (!(n == StringView(""))) violate("model", site("scalar_eq"), "empty string node does not compare equal to the empty view"); break; }
      }
      ob = "ca"; return true;
    }
    // a scalar setter must leave a node that is indistinguishable (to ==) from a freshly constructed one, whatever the node held before
    auto fresh_eq = [&](const N& f, const char* what) {
      if (!(chk & CHK_EQ)) return;
      if (!(n == f) || !(f == n) || (n != f)) violate("model", site("scalar_history"), std::string("a node set to a scalar (") + what + ") does not compare equal to a freshly constructed node of the same value (its earlier contents leak into ==)");
      probe("scalar_set_over_earlier_contents");
    };
    if (k == "SetNull") { n.SetNull(); m = JVal::null(); fresh_eq(N(kNull), "null"); ob = "n"; return true; }
    if (k == "SetBool") { bool bv = op.A(1) & 1; n.SetBool(bv); m = JVal::boolean(bv); fresh_eq(N(bv), "bool"); if ((chk & CHK_EQ) && !(n == bv)) violate("model", site("scalar_history"), "node set to a bool does not compare equal to it"); ob = "b"; return true; }
    if (k == "SetInt") { n.SetInt64(op.A(1)); m = JVal::sint(op.A(1)); fresh_eq(N((int64_t)op.A(1)), "int64"); if ((chk & CHK_EQ) && !(n == (int64_t)op.A(1))) violate("model", site("scalar_history"), "node set to an int64 does not compare equal to it"); ob = "i"; return true; }
    if (k == "SetUint") { n.SetUint64((uint64_t)op.A(1)); m = JVal::uint((uint64_t)op.A(1)); fresh_eq(N((uint64_t)op.A(1)), "uint64"); if ((chk & CHK_EQ) && !(n == (uint64_t)op.A(1))) violate("model", site("scalar_history"), "node set to a uint64 does not compare equal to it"); ob = "u"; return true; }
    if (k == "SetDouble") { double dv; uint64_t bits = (uint64_t)op.A(1); memcpy(&dv, &bits, 8); n.SetDouble(dv); m = JVal::real_bits(bits); if (((bits >> 52) & 0x7ff) != 0x7ff) fresh_eq(N(dv), "double"); ob = "d"; return true; }
    if (k == "SetArray") { n.SetArray(); m = JVal::arr(); ob = "a"; return true; }
    if (k == "SetObject") { n.SetObject(); m = JVal::obj(); ob = "o"; return true; }
    if (k == "SetStr") {
      const std::string& str = op.S(1);
      bool copy = op.A(1) & 1;
      if (copy) {
        CBuf sb(str);
        bool armed = false;
        if (op.fault == FT_STRCOPY_FAIL && s.flavour != FL_POOL) { simmem::arm_fail(s.flavour == FL_SIM ? simmem::SIMALLOC : simmem::LIBC, simmem::FK_MALLOC, 0); armed = true; }
        n.SetString(sb.data, str.size(), alloc);
        bool fired = armed && simmem::disarm();
        sb.release();
        if (fired) { probe("alloc_fail_fired_in_stringcopy"); m = JVal::str(""); ob = "sF"; return true; }
      } else {
        n.SetString(bc.konst(str), str.size());
      }
      m = JVal::str(str); ob = "s"; return true;
    }
    if (k == "AddMember") {
      if (m.k != JVal::Obj) return false;
      const std::string& key = op.S(1);
      JVal v = canon_decode(op.S(2));
      bool copy = op.A(1) & 1;
      N tmp; build(tmp, v, alloc, bc);
      size_t before_sz = n.Size();
      bool fired = false;
      typename N::MemberIterator it;
      if (copy) {
        CBuf kb(key);
        bool armed = false;
        if (op.fault == FT_STRCOPY_FAIL && s.flavour != FL_POOL) {
          int skip = (n.Size() >= n.Capacity() && n.Capacity() == 0) ? 1 : 0;
          simmem::arm_fail(s.flavour == FL_SIM ? simmem::SIMALLOC : simmem::LIBC, simmem::FK_MALLOC, skip); armed = true;
        }
        it = n.AddMember(StringView(kb.data, key.size()), std::move(tmp), alloc, true);
        fired = armed && simmem::disarm();
        kb.release();
      } else {
        it = n.AddMember(StringView(bc.konst(key), key.size()), std::move(tmp), alloc, false);
      }
      if ((size_t)(it - n.MemberBegin()) != before_sz) violate("model", site("return"), "AddMember did not return the iterator of the appended member");
      if (fired) probe("alloc_fail_fired_in_stringcopy");
      m.o.emplace_back(fired ? std::string() : key, std::move(v));
      if (m.has_map) probe("addmember_with_map");
      ob = fired ? "AF" : "A";
      if (chk & CHK_LOOKUP) check_lookups(n, m, s.may_map);
      return true;
    }
    if (k == "RemoveMember") {
      if (m.k != JVal::Obj) return false;
      const std::string& key = op.S(1);
      if ((m.has_map || s.may_map) && m.count_key(key) > 1) return false;  // multimap may pick either duplicate
      CBuf kb(key);
      bool r = n.RemoveMember(StringView(kb.data, key.size()));
      kb.release();
      int j = m.find(key);
      if (r != (j >= 0)) violate("model", site("return"), std::string("RemoveMember returned ") + (r ? "true" : "false") + " for a key that is " + (j >= 0 ? "present" : "absent"));
      if (j >= 0) {
        note_gone(key);
        size_t last = m.o.size() - 1;
        if ((size_t)j != last) { m.o[(size_t)j] = std::move(m.o[last]); probe("remove_moves_tail"); if (m.has_map) probe("remove_moves_tail_with_map"); }
        m.o.pop_back();
      }
      ob = r ? "R1" : "R0";
      if (chk & CHK_LOOKUP) check_lookups(n, m, s.may_map);
      return true;
    }
    if (k == "EraseMember") {
      if (m.k != JVal::Obj) return false;
      size_t sz = m.o.size();
      size_t first = (size_t)((uint64_t)op.A(1) % (sz + 1));
      size_t last = first + (size_t)((uint64_t)op.A(2) % (sz - first + 1));
      if (sz == 0 && n.MemberBegin() == nullptr) { /* iterators of an empty object without storage */ }
      auto it = n.EraseMember(n.MemberBegin() + first, n.MemberBegin() + last);
      for (size_t q = first; q < last && q < first + 4; q++) note_gone(m.o[q].first);
      if (last > first) note_gone(m.o[last - 1].first);
      m.o.erase(m.o.begin() + (long)first, m.o.begin() + (long)last);
      m.has_map = false;
      long ri = it - n.MemberBegin();
      if (m.o.empty() ? (it != n.MemberEnd()) : (ri != (long)first)) violate("model", site("return"), "EraseMember returned iterator index " + std::to_string(ri) + ", expected " + std::to_string(first));
      ob = "E" + std::to_string(first) + "-" + std::to_string(last);
      if (chk & CHK_LOOKUP) check_lookups(n, m, s.may_map);
      return true;
    }
    if (k == "MemberReserve") {
      if (m.k != JVal::Obj) return false;
      size_t want = (size_t)((uint64_t)op.A(1) % 70);
      n.MemberReserve(want, alloc);
      if (n.Capacity() < want) violate("model", site("capacity"), "Capacity() below the reserved amount");
      ob = "mr";
      if (chk & CHK_LOOKUP) check_lookups(n, m, s.may_map);
      return true;
    }
    if (k == "CreateMap") {
      if (m.k != JVal::Obj) return false;
      bool r = n.CreateMap(alloc);
      if (!r) violate("model", site("return"), "CreateMap returned false");
      m.has_map = true; ob = "cm";
      probe("create_map");
      if (chk & CHK_LOOKUP) check_lookups(n, m, s.may_map);
      return true;
    }
    if (k == "DestroyMap") {
      if (m.k != JVal::Obj) return false;
      n.DestroyMap(); m.has_map = false; ob = "dm";
      if (chk & CHK_LOOKUP) check_lookups(n, m, false);
      return true;
    }
    if (k == "Lookup") {
      if (m.k != JVal::Obj) return false;
      check_lookups(n, m, s.may_map);
      return true;
    }
    if (k == "PushBack") {
      if (m.k != JVal::Arr) return false;
      JVal v = canon_decode(op.S(1));
      N tmp; build(tmp, v, alloc, bc);
      N& r = n.PushBack(std::move(tmp), alloc);
      if (&r != &n) violate("model", site("return"), "PushBack did not return *this");
      m.a.push_back(std::move(v)); ob = "pb"; return true;
    }
    if (k == "PushBackN") {   // bulk growth: capacity 16 -> 24 -> 36 -> 54
      if (m.k != JVal::Arr) return false;
      size_t cnt = bulk_count(op.A(1));
      for (size_t i = 0; i < cnt; i++) {
        JVal v = (i % 5 == 4) ? JVal::str("e" + std::to_string(i)) : JVal::uint(i * 3 + 1);
        N tmp; build(tmp, v, alloc, bc);
        n.PushBack(std::move(tmp), alloc);
        m.a.push_back(std::move(v));
      }
      probe("bulk_pushback"); ob = "pbn"; return true;
    }
    if (k == "AddMemberN") {
      if (m.k != JVal::Obj) return false;
      size_t cnt = bulk_count(op.A(1));
      for (size_t i = 0; i < cnt; i++) {
        std::string key = "n" + std::to_string(cur_op) + "_" + std::to_string(i);
        JVal v = (i % 4 == 3) ? JVal::str("v" + std::to_string(i)) : JVal::sint((int64_t)i - 7);
        N tmp; build(tmp, v, alloc, bc);
        if (op.A(2) & 1) { CBuf kb(key); n.AddMember(StringView(kb.data, key.size()), std::move(tmp), alloc, true); kb.release(); }
        else n.AddMember(StringView(bc.konst(key), key.size()), std::move(tmp), alloc, false);
        m.o.emplace_back(key, std::move(v));
      }
      probe("bulk_addmember"); if (m.has_map) probe("bulk_addmember_with_map"); ob = "amn";
      if (chk & CHK_LOOKUP) check_lookups(n, m, s.may_map);
      return true;
    }
    if (k == "PopBack") {
      if (m.k != JVal::Arr || m.a.empty()) return false;
      n.PopBack(); m.a.pop_back(); ob = "pp"; return true;
    }
    if (k == "Erase") {
      if (m.k != JVal::Arr) return false;
      size_t sz = m.a.size();
      if (sz == 0) return false;
      size_t first = (size_t)((uint64_t)op.A(1) % (sz + 1));
      size_t last = first + (size_t)((uint64_t)op.A(2) % (sz - first + 1));
      if (op.A(3) & 1) {
        if (first >= sz) return false;
        auto it = n.Erase(n.Begin() + first);
        last = first + 1;
        if (it - n.Begin() != (long)first) violate("model", site("return"), "Erase(pos) returned a wrong iterator");
      } else {
        auto it = n.Erase(first, last);
        if (it - n.Begin() != (long)first) violate("model", site("return"), "Erase(first,last) returned a wrong iterator");
      }
      m.a.erase(m.a.begin() + (long)first, m.a.begin() + (long)last);
      ob = "e" + std::to_string(first) + "-" + std::to_string(last); return true;
    }
    if (k == "Reserve") {
      if (m.k != JVal::Arr) return false;
      size_t want = (size_t)((uint64_t)op.A(1) % 70);
      n.Reserve(want, alloc);
      if (n.Capacity() < want) violate("model", site("capacity"), "Capacity() below the reserved amount");
      ob = "r"; return true;
    }
    if (k == "Clear") {
      if (!m.is_container()) return false;
      for (size_t q = 0; q < m.o.size() && q < 4; q++) note_gone(m.o[q].first);
      n.Clear(); m.a.clear(); m.o.clear(); m.has_map = false;
      if (n.Size() != 0 || !n.Empty()) violate("model", site("size"), "container not empty after Clear");
      ob = "c"; return true;
    }
    if (k == "MoveNode" || k == "SwapNode") {
      auto o2 = resolve(root, s.m, op.S(1));
      if (o2.n == &n) {   // the library guards self-assignment explicitly (this != &rhs): it must be a no-op
        if (k == "MoveNode") { N& self = n; n = std::move(self); } else n.Swap(n);
        probe("self_move_or_swap");
        ob = "self"; return true;
      }
      if (k == "MoveNode") {
        // dst = std::move(src): src may be inside dst, dst must not be inside src
        if (is_prefix(o2.idx, t.idx)) return false;
        n = std::move(*o2.n);
        JVal tmpv = std::move(*o2.m);
        *o2.m = JVal::null();
        // careful: o2.m may live inside m; take value first (done), then overwrite
        m = std::move(tmpv);
        if (is_prefix(t.idx, o2.idx)) probe("move_from_own_subnode");
        ob = "mv"; return true;
      }
      if (is_prefix(o2.idx, t.idx) || is_prefix(t.idx, o2.idx)) return false;
      n.Swap(*o2.n);
      std::swap(m, *o2.m);
      ob = "sw"; return true;
    }
    if (k == "AtPointer") {
      auto ps = pspec_decode(op.S(1));
      auto path = pspec_resolve(ps, m);
      JsonPointer jp = to_json_pointer(path);
      const N& cn = n;
      N* r = n.AtPointer(jp);
      const N* cr = cn.AtPointer(jp);
      const JVal* want = model::pointer(m, path);
      // with duplicate keys AND a lookup map on the way, the multimap may return either duplicate: the statement
      // restricts the map claim to distinct keys, so only self-consistency is judged then
      bool ambiguous = false;
      {
        const JVal* cur = &m;
        for (auto& e : path) {
          if (!cur) break;
          if (!e.is_index && cur->k == JVal::Obj && (cur->has_map || s.may_map) && cur->count_key(e.key) > 1) ambiguous = true;
          std::vector<model::PathElem> one{e};
          cur = model::pointer(*cur, one);
        }
      }
      if (ambiguous) { if (r != cr) violate("model", site("const"), "const and non-const AtPointer disagree"); probe("atpointer_ambiguous_dup_with_map"); ob = "apx"; return true; }
      if ((r != nullptr) != (want != nullptr) || r != cr)
        violate("model", site("resolve"), std::string("AtPointer ") + (r ? "resolved" : "did not resolve") + " but the model " + (want ? "does" : "does not"));
      if (r) { std::string g = walk_str(*r); if (g != model::canon(*want)) violate("model", site("value"), "AtPointer returned another node than the model's"); probe("atpointer_hit"); }
      {  // the StringView-typed pointer and the variadic overloads must agree with the std::string one
        JsonPointerView jv;
        for (auto& e : path) { if (e.is_index) jv /= JsonPointerNodeView((int)e.index); else jv /= JsonPointerNodeView(StringView(e.key)); }
        if (cn.AtPointer(jv) != cr) violate("model", site("view_pointer"), "AtPointer(JsonPointerView) disagrees with AtPointer(JsonPointer)");
        const N* vr = cr;
        bool comparable = true;
        for (auto& e : path) if (e.is_index && e.index < 0) comparable = false;   // size_t overload cannot express a negative index
        if (comparable && path.size() == 0) vr = cn.AtPointer();
        else if (comparable && path.size() == 1) vr = path[0].is_index ? cn.AtPointer((size_t)path[0].index) : cn.AtPointer(StringView(path[0].key));
        else if (comparable && path.size() == 2) {
          if (path[0].is_index && path[1].is_index) vr = cn.AtPointer((size_t)path[0].index, (size_t)path[1].index);
          else if (path[0].is_index) vr = cn.AtPointer((size_t)path[0].index, StringView(path[1].key));
          else if (path[1].is_index) vr = cn.AtPointer(StringView(path[0].key), (size_t)path[1].index);
          else vr = cn.AtPointer(StringView(path[0].key), StringView(path[1].key));
        }
        if (vr != cr) violate("model", site("variadic"), "variadic AtPointer(...) disagrees with AtPointer(JsonPointer)");
        // the size_t overloads take the full index width: an index whose low 32 (or 31) bits happen to be valid is still out of range
        if (comparable && cr && !path.empty() && path.back().is_index) {
          static const size_t far[] = {(size_t)1 << 32, (size_t)1 << 31, (size_t)1 << 63, ~(size_t)0 << 32};
          size_t big = (size_t)path.back().index + far[(size_t)cur_op % 4];
          const N* fr = nullptr;
          if (path.size() == 1) fr = cn.AtPointer(big);
          else if (path.size() == 2) fr = path[0].is_index ? cn.AtPointer((size_t)path[0].index, big) : cn.AtPointer(StringView(path[0].key), big);
          if (fr) violate("model", site("variadic_wide_index"), "variadic AtPointer resolved an index of " + std::to_string(big) + " in a container that has no such element");
          probe("atpointer_index_beyond_32_bits");
        }
      }
      ob = r ? "ap1" : "ap0"; return true;
    }
    if (k == "Serialize" || k == "Dump") {
      std::string bytes; SonicError err;
      bool nonfinite = m.nonfinite_deep();
      if (k == "Serialize") {
        WriteBuffer& w = *wb[(size_t)((uint64_t)op.A(1) % NWB)];
        err = n.Serialize(w);
        if (err == kErrorNone) {
          size_t sz = w.Size();
          const char* cs = w.ToString();
          if (strlen(cs) != sz && memchr(cs, 0, sz) == nullptr) violate("model", site("size"), "WriteBuffer::Size() != strlen(ToString())");
          bytes.assign(cs, sz);
        }
      } else {
        bytes = n.Dump(); err = bytes.empty() ? kSerErrorInfinity : kErrorNone;
        if (bytes.empty() && !nonfinite) violate("model", site("error"), "Dump returned the empty string for a finite document");
      }
      ob = "Z" + std::to_string((int)err) + bytes;
      if (!(chk & CHK_SER)) return true;
      if (nonfinite) {
        if (k == "Serialize" && err != kSerErrorInfinity) violate("model", site("nonfinite"), "document with a non-finite double: Serialize returned " + std::to_string((int)err) + " instead of the infinity error");
        if (k == "Dump" && !bytes.empty()) violate("model", site("nonfinite"), "Dump of a document with a non-finite double is not empty");
        probe("serialize_nonfinite");
        return true;
      }
      if (err != kErrorNone) violate("model", site("error"), "Serialize returned error " + std::to_string((int)err) + " for a finite document");
      check_serialized(bytes, n, m);
      return true;
    }
    return false;
  }

  static bool any_map(const JVal& v) {
    if (v.has_map) return true;
    for (auto& x : v.a) if (any_map(x)) return true;
    for (auto& kv : v.o) if (any_map(kv.second)) return true;
    return false;
  }

  // relation form of the C19 statement; the corner "existing non-empty object, text empty object"
  // is accepted both ways (statement is ambiguous there)
  static bool schema_ok(const JVal& e, const JVal& t, const JVal& r, std::string& why) {
    if (e.k == JVal::Obj && !e.o.empty() && t.k == JVal::Obj) {
      if (t.o.empty()) { if (model::equal_struct(r, e) || model::equal_struct(r, t)) return true; why = "empty-object text over non-empty object"; return false; }
      if (r.k != JVal::Obj || r.o.size() != e.o.size()) { why = "key set of a non-empty object level changed"; return false; }
      for (size_t i = 0; i < e.o.size(); i++) {
        if (r.o[i].first != e.o[i].first) { why = "key set/order of a non-empty object level changed"; return false; }
        int j = t.find(e.o[i].first);
        if (j < 0) { if (!model::equal_struct(r.o[i].second, e.o[i].second)) { why = "declared key omitted by the text was changed: " + model::printable(e.o[i].first); return false; } }
        else if (!schema_ok(e.o[i].second, t.o[(size_t)j].second, r.o[i].second, why)) { if (why.size() < 200) why = "at key '" + model::printable(e.o[i].first) + "': " + why; return false; }
      }
      return true;
    }
    if (!model::equal_struct(r, t)) { why = "value not replaced by the text's value"; return false; }
    return true;
  }

  template <class D> void after_parse(D& d, Slot& s, const model::ParseOut& ref, size_t len) {
    using N = typename NodeOf<D>::type;
    N& root = static_cast<N&>(d);
    s.may_map = false;
    if (d.HasParseError()) {
      if (!d.IsNull()) violate("contract", site("failed_parse_state"), "document not null after a failed Parse");
      if (d.GetParseError() == kErrorNone) violate("contract", site("failed_parse_state"), "HasParseError with code none");
      s.m = JVal::null();
      probe("parse_failed");
      if ((chk & CHK_PARSEFAIL) && ref.ok) violate("model", site("reject_valid"), "Parse rejected a text the plan rendered from a model value (code " + std::to_string((int)d.GetParseError()) + " at " + std::to_string(d.GetErrorOffset()) + ")");
      return;
    }
    (void)len;
    s.m = to_jval(root);
    probe("parse_ok");
    if (ref.ok && (chk & CHK_PARSEVAL) && !model::equal_struct(s.m, ref.v))
      violate("model", site("value"), "parsed document differs from the reference parse: got " + model::printable(model::canon(s.m), 200) + " want " + model::printable(model::canon(ref.v), 200));
    ob += model::canon(s.m);
  }

  template <class N> void check_serialized(const std::string& bytes, N& n, JVal& m) {
    model::ParseOut ref = model::parse(bytes);
    if (!ref.ok) violate("model", site("invalid_json"), "serialised text rejected by the reference recogniser at " + std::to_string(ref.err_pos) + ": " + model::printable(bytes, 300));
    if (!model::equal_struct(ref.v, m)) violate("model", site("roundtrip_ref"), "reference parse of the serialised text differs from the document: text " + model::printable(bytes, 300) + " model " + model::printable(model::canon(m), 300));
    // parse back with the library itself (freeing allocator scratch document), compare with ==
    DSim scratch;
    CBuf tb(bytes);
    scratch.Parse(tb.data, bytes.size());
    tb.release();
    if (scratch.HasParseError()) violate("model", site("roundtrip_parse"), "library rejected its own serialised text: " + model::printable(bytes, 300));
    if (!m.has_dup_keys_deep()) {
      const N& cn = n;
      // operator== looks every member of the left side up in the right side: linear per lookup without a map. For objects of
      // thousands of members the comparison is made one way only, against a right side that has a lookup map
      bool large = m.max_object_size() > 3000;
      if (large) { std::function<void(NSim&)> maps = [&](NSim& x) { if (x.IsObject()) { if (x.Size() > 3000) x.CreateMap(scratch.GetAllocator()); for (auto it = x.MemberBegin(); it != x.MemberEnd(); ++it) maps(it->value); } else if (x.IsArray()) for (auto it = x.Begin(); it != x.End(); ++it) maps(*it); }; maps(static_cast<NSim&>(scratch)); }
      if (!(cn == static_cast<const NSim&>(scratch)) || (!large && !(static_cast<const NSim&>(scratch) == cn))) violate("model", site("roundtrip_equal"), "Parse(Serialize(doc)) != doc: " + model::printable(bytes, 300));
    }
    std::string again = scratch.Dump();
    if (again != bytes) violate("model", site("idempotent"), "re-serialising the parsed-back document gives different bytes: " + model::printable(bytes, 200) + " vs " + model::printable(again, 200));
    probe("serialize_roundtrip");
  }
};
}  // namespace simdom
