// SimMem — the simulated memory environment (DESIGN §2.2).
// Owns every byte the library obtains (libc via --wrap, SimAlloc, SimBase) and every
// caller buffer; decides placement, fresh contents, move-vs-extend, failure; keeps a ledger.
#pragma once
#include <cstddef>
#include <cstdint>
#include <string>
#include <vector>

namespace simmem {

enum Provider : uint8_t { LIBC = 0, SIMALLOC = 1, SIMBASE = 2, CALLER = 3, NPROV = 4 };
enum Fill : uint8_t { F_ZERO = 0, F_FF, F_QUOTE, F_BSLASH, F_NOISE, F_FAKENODE, NFILL };
enum Place : uint8_t { PL_END = 0, PL_START = 1, PL_MID = 2, PL_AUTO = 3 };

struct Env {
  uint64_t seed = 1;
  uint8_t fill = F_ZERO;
  uint8_t w_end = 1, w_start = 0, w_mid = 0;  // placement weights
  uint8_t hostile = 0;          // neighbour bytes hostile (quotes, backslashes, brackets, ctrl)
  uint8_t realloc_inplace = 0;  // extend in place when the slot allows, else always move
  uint8_t free_protect = 0;     // freed blocks become PROT_NONE until recycled
  uint8_t reuse_lifo = 0;       // freed slot is the next one handed out (stale own data)
};

// fault-kind counters (counted when they FIRE)
enum Ctr {
  C_ALLOC = 0, C_GUARD_AFTER, C_GUARD_BEFORE, C_MID, C_HOSTILE, C_FILL_ZERO, C_FILL_FF, C_FILL_QUOTE,
  C_FILL_BSLASH, C_FILL_NOISE, C_FILL_FAKENODE, C_REALLOC_MOVE, C_REALLOC_INPLACE, C_FREE_POISON,
  C_FREE_PROTECT, C_ALLOC_FAIL, C_CALLER_RELEASE, C_BIG, C_REUSE_LIFO, C_DENSE, NCTR
};
extern const char* const kCtrNames[NCTR];
extern uint64_t g_ctr[NCTR];

struct Block {
  uint32_t id = 0;
  char* ptr = nullptr;
  size_t size = 0;
  uint8_t prov = 0;
  int op = -1, opkind = -1;
  uint16_t ord = 0;     // ordinal of the allocation event inside its op (per provider)
  uint8_t via_realloc = 0;
};

struct Pending { std::string cls, detail; };

void init();                      // once per process
void begin_run(const Env& e);     // forget everything, start a run
void set_op(int opidx, int opkind);
void deactivate();                // libc wrappers pass through again (before process exit)
const Env& env();

void* alloc(Provider p, size_t n);
void* realloc_(Provider p, void* old, size_t n);
void free_(Provider p, void* ptr);

// caller-owned buffers (texts, keys, paths, operands). pre/post: neighbour fill byte source;
// when hostile_like != nullptr the neighbours are filled by repeating that pattern.
char* caller_buf(const void* data, size_t n, Place pl = PL_AUTO, const char* hostile_like = nullptr,
                 size_t hostile_len = 0);
char* caller_raw(size_t n);       // untouched zero pages of n bytes ending at a guard page (guarded mode; huge operands)
void caller_release(char* p);     // poison + protect (or free in sanitizer mode)
void caller_free(char* p);        // plain return

// failure injection: fail the (skip+1)-th matching event from now on, once.
enum FailKind : uint8_t { FK_NONE = 0, FK_MALLOC, FK_REALLOC_NULL };
void arm_fail(Provider p, FailKind k, int skip);
bool disarm();                    // returns true if it fired

// ledger
size_t live_count(Provider p);
void live_blocks(Provider p, std::vector<Block>& out);
const std::vector<Block>& op_allocs();   // allocations made during the current op, in order
bool is_live(const void* p);
bool take_pending(Pending& out);  // ledger violations noticed inside alloc/free
bool has_pending();
void* trap_ptr();                 // address inside a PROT_NONE page
bool guarded();                   // true: guard-page arena; false: sanitizer mode

// context for fatal reports
struct FatalCtx { const char* prop; uint64_t run; int env_id; };
extern FatalCtx g_fatal_ctx;
extern void (*g_on_fatal)(const char* cls, const char* detail, int op, int opkind);
void classify_addr(const void* addr, char* out, size_t outlen);

}  // namespace simmem

// Allocator-concept adaptors (template parameters of DNode / MemoryPoolAllocator)
struct SimAlloc {
  void* Malloc(size_t n) { return n ? simmem::alloc(simmem::SIMALLOC, n) : nullptr; }
  void* Realloc(void* p, size_t, size_t n) {
    if (n == 0) { Free(p); return nullptr; }
    return simmem::realloc_(simmem::SIMALLOC, p, n);
  }
  static void Free(void* p) { if (p) simmem::free_(simmem::SIMALLOC, p); }
  bool operator==(const SimAlloc&) const { return true; }
  bool operator!=(const SimAlloc&) const { return false; }
  static constexpr bool kNeedFree = true;
};
struct SimBase {
  void* Malloc(size_t n) { return n ? simmem::alloc(simmem::SIMBASE, n) : nullptr; }
  void* Realloc(void* p, size_t, size_t n) {
    if (n == 0) { Free(p); return nullptr; }
    return simmem::realloc_(simmem::SIMBASE, p, n);
  }
  static void Free(void* p) { if (p) simmem::free_(simmem::SIMBASE, p); }
  static constexpr bool kNeedFree = true;
};
