#!/bin/bash
# Runs the repository's own unit-test suite with the verification guard OFF (no -DSONIC_VERIF_SIM):
# the stable baseline of /root/.vp/BASELINE.json (173 tests pass; 6 ParseFile tests fail on emptied data).
set -u
B=/verif/build/baseline
mkdir -p "$B"
cmake -G Ninja -S /repo -B "$B" -DCMAKE_BUILD_TYPE=RelWithDebInfo -DBUILD_TESTING=ON -DCMAKE_POLICY_VERSION_MINIMUM=3.5 \
  -DFETCHCONTENT_TRY_FIND_PACKAGE_MODE=ALWAYS -DFETCHCONTENT_UPDATES_DISCONNECTED=ON \
  -DFETCHCONTENT_SOURCE_DIR_GOOGLETEST=/usr/src/googletest -DCMAKE_CXX_FLAGS=-Wno-error > "$B/configure.log" 2>&1 || { tail -20 "$B/configure.log"; exit 2; }
cmake --build "$B" -j"$(nproc)" > "$B/build.log" 2>&1 || { tail -30 "$B/build.log"; exit 2; }
cd "$B" && ./tests/unittest --gtest_output=xml:"$B/unittest.xml" 2>&1 | grep -E "^\[  (PASSED|FAILED)  \]|tests ran" 
pass=$(grep -c 'status="run"' "$B/unittest.xml" 2>/dev/null)
fail=$(grep -c '<failure' "$B/unittest.xml" 2>/dev/null)
echo "ran=$pass failures=$fail"
# expected: 179 run, 6 failing test cases (ParseFile / ParseOnDemandFile)
exit 0
