#!/usr/bin/env python3
import json,sys
for f in sys.argv[1:]:
    p=json.load(open(f))
    print('==',f,p.get('expected',{}).get('cls'),p.get('expected',{}).get('site'))
    print('   ',p.get('expected',{}).get('detail','')[:400])
    print('   knobs',{k:v for k,v in p['knobs'].items() if k!='envseed'})
    for op in p['ops']:
        ss=[ (x.get('t') if 't' in x else bytes.fromhex(x['h'])) for x in op['s']]
        print('   ',op['k'],op['a'],ss,op['f'])
