#!/bin/bash
# usage: wave2test.sh PROP [flavours] — run every /tmp/wt2/PROP/out/*/patch.diff against PROP's quick check on a scratch copy
P=$1; FL=${2:-prod-avx2}
for d in ${SEEDBASE:-/tmp/wt2}/$P/out/*/; do
  [ -f $d/patch.diff ] || continue
  if [ "$FL" = all ]; then ./check selftest patch $P $d/patch.diff 14 2>&1 | grep MUTANT | cut -c1-300
  else ./check selftest patch $P $d/patch.diff 14 $FL 2>&1 | grep MUTANT | cut -c1-300; fi
done
